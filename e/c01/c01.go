// Package c01 is the engine E harness of property C01: messages arrive byte-identical
// and whole over every transport, for every pattern in cooked and raw mode, for every
// body length up to the receive limit.
//
// Real sockets are connected over the real transports (inproc, ipc, tcp, tls+tcp, ws,
// wss).  A "cell" is one connected socket pair (transport x pattern) that is reused
// for a deterministic list of batches; every message carries position dependent
// content derived from a per-message seed, so that shifted, merged, truncated, padded
// or cross-contaminated data cannot compare equal.  After each batch a sentinel
// message must be the next message received.
//
// Oracle (data only, no wall-clock component): the message returned by Recv has the
// length and every byte of the message accepted by Send, one receive per send, in
// order on the single connection of the cell.  Deadlines (15 s and more) are hang
// detectors only.  A failing batch is replayed three times on fresh sockets before it
// is reported.
package c01

import (
	"bytes"
	"crypto/tls"
	"encoding/binary"
	"fmt"
	"os"
	"sort"
	"strings"
	"sync"
	"sync/atomic"
	"time"

	"go.nanomsg.org/mangos/v3"
	"go.nanomsg.org/mangos/v3/internal/test"
	"go.nanomsg.org/mangos/v3/protocol/bus"
	"go.nanomsg.org/mangos/v3/protocol/pair"
	"go.nanomsg.org/mangos/v3/protocol/pair1"
	"go.nanomsg.org/mangos/v3/protocol/pub"
	"go.nanomsg.org/mangos/v3/protocol/pull"
	"go.nanomsg.org/mangos/v3/protocol/push"
	"go.nanomsg.org/mangos/v3/protocol/rep"
	"go.nanomsg.org/mangos/v3/protocol/req"
	"go.nanomsg.org/mangos/v3/protocol/respondent"
	"go.nanomsg.org/mangos/v3/protocol/star"
	"go.nanomsg.org/mangos/v3/protocol/sub"
	"go.nanomsg.org/mangos/v3/protocol/surveyor"
	"go.nanomsg.org/mangos/v3/protocol/xbus"
	"go.nanomsg.org/mangos/v3/protocol/xpair"
	"go.nanomsg.org/mangos/v3/protocol/xpair1"
	"go.nanomsg.org/mangos/v3/protocol/xpub"
	"go.nanomsg.org/mangos/v3/protocol/xpull"
	"go.nanomsg.org/mangos/v3/protocol/xpush"
	"go.nanomsg.org/mangos/v3/protocol/xrep"
	"go.nanomsg.org/mangos/v3/protocol/xreq"
	"go.nanomsg.org/mangos/v3/protocol/xrespondent"
	"go.nanomsg.org/mangos/v3/protocol/xstar"
	"go.nanomsg.org/mangos/v3/protocol/xsub"
	"go.nanomsg.org/mangos/v3/protocol/xsurveyor"
	_ "go.nanomsg.org/mangos/v3/transport/all"
	"go.nanomsg.org/mangos/v3/ve/ekit"
)

// ---------------------------------------------------------------------------------
// tunables

const (
	hangDeadline   = 15 * time.Second // Recv/Send deadline: hang detector only
	attachDeadline = 20 * time.Second // both ends must see the pipe attached
	overDeadline   = 30 * time.Second // sentinel after an over-limit message
	probeDeadline  = time.Second      // pacing of the retry loop after an over-limit message (not an oracle)
	sentinelLen    = 24
	smallLimit     = 4096
	defaultLimit   = 1024 * 1024
	maxCellFails   = 5
	parallelCells  = 24
)

var poolClasses = []int{64, 128, 256, 512, 1024, 4096, 8192, 65536}

var pairAlphabet = []int{0, 1, 63, 64, 65, 127, 128, 1023, 1024, 1025, 4096, 8193}

// ---------------------------------------------------------------------------------
// message content

func mix(x uint64) uint64 {
	x += 0x9E3779B97F4A7C15
	x = (x ^ (x >> 30)) * 0xBF58476D1CE4E5B9
	x = (x ^ (x >> 27)) * 0x94D049BB133111EB
	return x ^ (x >> 31)
}

// pat is the position dependent content function: byte i of the message with the
// given seed.
func pat(seed uint64, i int) byte {
	x := seed + uint64(i)*0x9E3779B97F4A7C15
	x ^= x >> 29
	x *= 0xBF58476D1CE4E5B9
	x ^= x >> 32
	return byte(x)
}

// mspec describes one message body.
type mspec struct {
	n    int
	seed uint64
	fill int // -1: pat(seed, i); 0..255: every byte has that value
}

func (ms mspec) at(i int) byte {
	if ms.fill >= 0 {
		return byte(ms.fill)
	}
	return pat(ms.seed, i)
}

func (ms mspec) appendTo(b []byte) []byte {
	for i := 0; i < ms.n; i++ {
		b = append(b, ms.at(i))
	}
	return b
}

// diff returns "" if body is exactly the message ms, else a description.
func (ms mspec) diff(body []byte) string {
	first := -1
	n := len(body)
	if ms.n < n {
		n = ms.n
	}
	for i := 0; i < n; i++ {
		if body[i] != ms.at(i) {
			first = i
			break
		}
	}
	if first < 0 && len(body) == ms.n {
		return ""
	}
	var sb strings.Builder
	fmt.Fprintf(&sb, "sent len=%d, received len=%d", ms.n, len(body))
	if first >= 0 {
		hi := first + 8
		if hi > n {
			hi = n
		}
		want := make([]byte, 0, 8)
		for i := first; i < hi; i++ {
			want = append(want, ms.at(i))
		}
		fmt.Fprintf(&sb, ", first differing byte at offset %d: sent % x received % x", first, want, body[first:hi])
		// is it a shifted copy?
		for sh := -16; sh <= 16; sh++ {
			if sh == 0 {
				continue
			}
			ok, cnt := true, 0
			for i := 0; i < len(body) && cnt < 32; i++ {
				j := i + sh
				if j < 0 || j >= ms.n {
					continue
				}
				cnt++
				if body[i] != ms.at(j) {
					ok = false
					break
				}
			}
			if ok && cnt >= 4 {
				fmt.Fprintf(&sb, " (received[i] == sent[i%+d]: shifted)", sh)
				break
			}
		}
	} else if len(body) < ms.n {
		sb.WriteString(" (a prefix of what was sent: truncated)")
	} else {
		fmt.Fprintf(&sb, " (what was sent plus %d extra bytes % x)", len(body)-ms.n, body[ms.n:min(len(body), ms.n+8)])
	}
	return sb.String()
}

func min(a, b int) int {
	if a < b {
		return a
	}
	return b
}

// ---------------------------------------------------------------------------------
// transports

type tran struct {
	name    string
	scheme  string
	enforce bool // the transport enforces OptionMaxRecvSize (everything but inproc)
}

var trans = []*tran{
	{"inproc", "inproc", false},
	{"ipc", "ipc", true},
	{"tcp", "tcp", true},
	{"tls", "tls+tcp", true},
	{"ws", "ws", true},
	{"wss", "wss", true},
}

var (
	tlsOnce        sync.Once
	tlsSrv, tlsCli *tls.Config
	tlsErr         error
	addrSeq        uint64
)

func tlsConfigs() (*tls.Config, *tls.Config, error) {
	tlsOnce.Do(func() { tlsSrv, tlsCli, _, tlsErr = test.NewTLSConfig() })
	return tlsSrv, tlsCli, tlsErr
}

func (t *tran) listenAddr() string {
	n := atomic.AddUint64(&addrSeq, 1)
	switch t.scheme {
	case "inproc":
		return fmt.Sprintf("inproc://c01-%d", n)
	case "ipc":
		dir := ekit.Tmp
		if len(dir) > 80 { // sun_path is 108 bytes
			dir = os.TempDir()
		}
		return fmt.Sprintf("ipc://%s/c01-%d-%d.sock", dir, os.Getpid(), n)
	case "ws", "wss":
		return fmt.Sprintf("%s://127.0.0.1:0/c01", t.scheme)
	}
	return t.scheme + "://127.0.0.1:0"
}

func (t *tran) opts(server bool) (map[string]interface{}, error) {
	if t.scheme != "tls+tcp" && t.scheme != "wss" {
		return nil, nil
	}
	s, c, err := tlsConfigs()
	if err != nil {
		return nil, err
	}
	if server {
		return map[string]interface{}{mangos.OptionTLSConfig: s}, nil
	}
	return map[string]interface{}{mangos.OptionTLSConfig: c}, nil
}

// ---------------------------------------------------------------------------------
// patterns

const (
	modeOneWay = iota // A -> B only
	modeSym           // A -> B and B -> A, independent
	modeReply         // A -> B, then B -> A as the reply
)

type kind struct {
	name string
	raw  bool
	mode int
	wire int // protocol header bytes on the wire in front of the body (each direction)
	newA func() (mangos.Socket, error)
	newB func() (mangos.Socket, error)
}

var kinds = []*kind{
	{"pair", false, modeSym, 0, pair.NewSocket, pair.NewSocket},
	{"xpair", true, modeSym, 0, xpair.NewSocket, xpair.NewSocket},
	{"pair1", false, modeSym, 4, pair1.NewSocket, pair1.NewSocket},
	{"xpair1", true, modeSym, 4, xpair1.NewSocket, xpair1.NewSocket},
	{"reqrep", false, modeReply, 4, req.NewSocket, rep.NewSocket},
	{"xreqxrep", true, modeReply, 4, xreq.NewSocket, xrep.NewSocket},
	{"pubsub", false, modeOneWay, 0, pub.NewSocket, sub.NewSocket},
	{"xpubxsub", true, modeOneWay, 0, xpub.NewSocket, xsub.NewSocket},
	{"pushpull", false, modeOneWay, 0, push.NewSocket, pull.NewSocket},
	{"xpushxpull", true, modeOneWay, 0, xpush.NewSocket, xpull.NewSocket},
	{"survey", false, modeReply, 4, surveyor.NewSocket, respondent.NewSocket},
	{"xsurvey", true, modeReply, 4, xsurveyor.NewSocket, xrespondent.NewSocket},
	{"bus", false, modeSym, 0, bus.NewSocket, bus.NewSocket},
	{"xbus", true, modeSym, 0, xbus.NewSocket, xbus.NewSocket},
	{"star", false, modeSym, 4, star.NewSocket, star.NewSocket},
	{"xstar", true, modeSym, 4, xstar.NewSocket, xstar.NewSocket},
}

func kindByName(n string) *kind {
	for _, k := range kinds {
		if k.name == n {
			return k
		}
	}
	panic("no kind " + n)
}

func (k *kind) dirs() []int {
	if k.mode == modeOneWay {
		return []int{0}
	}
	return []int{0, 1}
}

// ---------------------------------------------------------------------------------
// a connected socket pair

type endpoint struct {
	s        mangos.Socket
	mu       sync.Mutex
	attached int
	detached int
	wake     chan struct{}
	rdl      time.Duration
}

func (e *endpoint) hook(ev mangos.PipeEvent, _ mangos.Pipe) {
	e.mu.Lock()
	switch ev {
	case mangos.PipeEventAttached:
		e.attached++
	case mangos.PipeEventDetached:
		e.detached++
	default:
		e.mu.Unlock()
		return
	}
	close(e.wake)
	e.wake = make(chan struct{})
	e.mu.Unlock()
}

func (e *endpoint) live() (int, chan struct{}) {
	e.mu.Lock()
	defer e.mu.Unlock()
	return e.attached - e.detached, e.wake
}

// waitLive waits until the endpoint has at least one attached pipe.
func (e *endpoint) waitLive(until time.Time) bool {
	for {
		n, w := e.live()
		if n >= 1 {
			return true
		}
		d := time.Until(until)
		if d <= 0 {
			return false
		}
		t := time.NewTimer(d)
		select {
		case <-w:
		case <-t.C:
		}
		t.Stop()
	}
}

func (e *endpoint) recv(d time.Duration) (*mangos.Message, error) {
	if e.rdl != d {
		if err := e.s.SetOption(mangos.OptionRecvDeadline, d); err != nil {
			return nil, fmt.Errorf("set recv deadline: %v", err)
		}
		e.rdl = d
	}
	return e.s.RecvMsg()
}

type link struct {
	t     *tran
	k     *kind
	ep    [2]*endpoint // 0 = A (dialer), 1 = B (listener)
	msgNo uint32
	bt    []byte // raw reply modes: header of the last request received by B
}

func setOpt(s mangos.Socket, name string, v interface{}) error {
	err := s.SetOption(name, v)
	if err == mangos.ErrBadOption {
		return nil
	}
	return err
}

// openLink creates, configures and connects the two sockets of a cell.  limit > 0
// sets OptionMaxRecvSize on both sockets (0 leaves the 1 MiB default).
func openLink(t *tran, k *kind, limit int) (*link, error) {
	l := &link{t: t, k: k}
	a, err := k.newA()
	if err != nil {
		return nil, err
	}
	b, err := k.newB()
	if err != nil {
		_ = a.Close()
		return nil, err
	}
	l.ep[0] = &endpoint{s: a, wake: make(chan struct{})}
	l.ep[1] = &endpoint{s: b, wake: make(chan struct{})}
	fail := func(err error) (*link, error) {
		l.close()
		return nil, err
	}
	for _, e := range l.ep {
		e.s.SetPipeEventHook(e.hook)
		if err := setOpt(e.s, mangos.OptionSendDeadline, hangDeadline); err != nil {
			return fail(err)
		}
		if err := setOpt(e.s, mangos.OptionRecvDeadline, hangDeadline); err != nil {
			return fail(err)
		}
		e.rdl = hangDeadline
		if limit > 0 {
			if err := e.s.SetOption(mangos.OptionMaxRecvSize, limit); err != nil {
				return fail(err)
			}
		}
	}
	switch k.name {
	case "pubsub":
		if err := b.SetOption(mangos.OptionSubscribe, []byte{}); err != nil {
			return fail(err)
		}
	case "survey":
		// the survey must not expire while the harness is descheduled
		if err := a.SetOption(mangos.OptionSurveyTime, 10*time.Minute); err != nil {
			return fail(err)
		}
	}
	so, err := t.opts(true)
	if err != nil {
		return fail(err)
	}
	co, err := t.opts(false)
	if err != nil {
		return fail(err)
	}
	ls, err := b.NewListener(t.listenAddr(), so)
	if err != nil {
		return fail(fmt.Errorf("new listener: %v", err))
	}
	if err := ls.Listen(); err != nil {
		return fail(fmt.Errorf("listen: %v", err))
	}
	addr := ls.Address()
	if err := a.DialOptions(addr, co); err != nil {
		return fail(fmt.Errorf("dial %s: %v", addr, err))
	}
	until := time.Now().Add(attachDeadline)
	if !l.ep[0].waitLive(until) || !l.ep[1].waitLive(until) {
		return fail(fmt.Errorf("pipe not attached on both ends within %v", attachDeadline))
	}
	return l, nil
}

func (l *link) close() {
	for _, e := range l.ep {
		if e != nil && e.s != nil {
			_ = e.s.Close()
		}
	}
}

func be32(v uint32) []byte {
	b := make([]byte, 4)
	binary.BigEndian.PutUint32(b, v)
	return b
}

// hdrFor is the Message.Header a raw socket has to supply so that the message routes.
func (l *link) hdrFor(dir int, id uint32) []byte {
	switch l.k.name {
	case "xpair1", "xstar":
		return []byte{0, 0, 0, 0} // hop count 0
	case "xreqxrep", "xsurvey":
		if dir == 0 {
			return be32(id | 0x80000000) // request / survey id, high bit ends the backtrace
		}
		return l.bt // pipe id + request id as received
	case "xbus":
		if id&1 == 1 {
			return []byte{0, 0, 0, 0} // "received from pipe 0": excluded from nobody
		}
	}
	return nil
}

// chkHdr checks the header a raw socket delivers (only the parts fixed by what the
// sender supplied or by the protocol for a single hop).
func (l *link) chkHdr(dir int, id uint32, m *mangos.Message) string {
	switch l.k.name {
	case "xpair1", "xstar":
		if !bytes.Equal(m.Header, []byte{0, 0, 0, 1}) {
			return fmt.Sprintf("header [% x], expected [00 00 00 01] (one hop)", m.Header)
		}
	case "xreqxrep", "xsurvey":
		want := be32(id | 0x80000000)
		if dir == 0 {
			if len(m.Header) != 8 || !bytes.Equal(m.Header[4:], want) {
				return fmt.Sprintf("header [% x], expected [<4 byte pipe id> % x]", m.Header, want)
			}
			l.bt = append([]byte{}, m.Header...)
		} else if !bytes.Equal(m.Header, want) {
			return fmt.Sprintf("header [% x], expected [% x]", m.Header, want)
		}
	case "xbus":
		if len(m.Header) != 4 {
			return fmt.Sprintf("header [% x], expected a 4 byte pipe id", m.Header)
		}
	}
	return ""
}

func (l *link) nextID() uint32 {
	l.msgNo++
	return l.msgNo
}

// send sends one message in direction dir (0: A->B, 1: B->A).
func (l *link) send(dir int, id uint32, ms mspec) error {
	m := mangos.NewMessage(ms.n)
	m.Body = ms.appendTo(m.Body[:0])
	if h := l.hdrFor(dir, id); h != nil {
		m.Header = append(m.Header[:0], h...)
	}
	err := l.ep[dir].s.SendMsg(m)
	if err != nil {
		m.Free()
	}
	return err
}

func (l *link) recv(dir int, d time.Duration) (*mangos.Message, error) {
	return l.ep[1-dir].recv(d)
}

// ---------------------------------------------------------------------------------
// cells, batches, failures

type batch struct {
	sizes []int
	fill  int  // -1 or constant byte value
	dir   int  // direction under test (for modeReply: both directions carry the sizes unless over)
	over  bool // last op: sizes[len-1] is an over-limit message; see runOver
	cases int  // how many cases this batch counts as
	keys  []string
}

type cell struct {
	id      int
	scen    string
	t       *tran
	k       *kind
	limit   int // OptionMaxRecvSize on both ends, 0 = default
	batches []*batch
}

type failure struct {
	kind    string // mismatch, order, lost, hdr, overlimit-delivered, send, setup
	timeout bool
	batch   int
	input   string
	msg     string
}

func (c *cell) seed(bi, mi, leg int) uint64 {
	return mix(uint64(c.id)<<40 ^ uint64(bi)<<20 ^ uint64(mi)<<2 ^ uint64(leg))
}

func (c *cell) describe(bi int, b *batch, mi int) string {
	lim := "default(1048576)"
	if c.limit > 0 {
		lim = fmt.Sprint(c.limit)
	}
	fill := "pat(seed,i)"
	if b.fill >= 0 {
		fill = fmt.Sprintf("constant 0x%02x", b.fill)
	}
	dir := "A(dialer)->B(listener)"
	if b.dir == 1 {
		dir = "B(listener)->A(dialer)"
	}
	if c.k.mode == modeReply {
		dir = "request A->B then reply B->A with the same body length"
		if b.over {
			dir = []string{"request direction A->B", "reply direction B->A"}[b.dir]
		}
	}
	s := fmt.Sprintf("scenario=%s transport=%s pattern=%s MaxRecvSize=%s direction=%s batch#%d body lengths=%v (+%d byte sentinel) content=%s failing message index=%d",
		c.scen, c.t.name, c.k.name, lim, dir, bi, b.sizes, sentinelLen, fill, mi)
	if b.over {
		s += " (last length is one byte over the limit)"
	}
	return s
}

type runStats struct {
	msgs, bytes               int
	overRejected, overInproc  int
	retransmit, overSendError int
}

// runCell opens a fresh link and runs batches [from, to).  It returns the first
// failure, or nil.
func runCell(c *cell, from, to int, rs *runStats) *failure {
	var l *link
	var err error
	for try := 0; try < 3; try++ {
		if l, err = openLink(c.t, c.k, c.limit); err == nil {
			break
		}
	}
	if err != nil {
		return &failure{kind: "setup", timeout: true, batch: from, input: fmt.Sprintf("scenario=%s transport=%s pattern=%s", c.scen, c.t.name, c.k.name), msg: "cannot connect the socket pair: " + err.Error()}
	}
	defer l.close()
	for bi := from; bi < to; bi++ {
		b := c.batches[bi]
		var f *failure
		if b.over {
			f = runOver(c, l, bi, b, rs)
		} else if c.k.mode == modeReply {
			f = runReplyBatch(c, l, bi, b, rs)
		} else {
			f = runOneWayBatch(c, l, bi, b, rs)
		}
		if f != nil {
			f.batch = bi
			return f
		}
	}
	return nil
}

func (c *cell) specs(bi int, b *batch, leg int) []mspec {
	out := make([]mspec, 0, len(b.sizes)+1)
	for mi, n := range b.sizes {
		out = append(out, mspec{n: n, seed: c.seed(bi, mi, leg), fill: b.fill})
	}
	out = append(out, mspec{n: sentinelLen, seed: c.seed(bi, len(b.sizes), leg), fill: -1})
	return out
}

// identify says whether body is some other message of the batch.
func identify(all []mspec, body []byte) string {
	for j, ms := range all {
		if ms.diff(body) == "" {
			what := fmt.Sprintf("message #%d of the batch", j)
			if j == len(all)-1 {
				what = "the sentinel"
			}
			return " -- the received message is exactly " + what
		}
	}
	return ""
}

// verify compares a received message with what was sent.
func verify(c *cell, l *link, bi int, b *batch, mi int, dir int, id uint32, all []mspec, m *mangos.Message) *failure {
	want := all[mi]
	if d := want.diff(m.Body); d != "" {
		kind := "mismatch"
		extra := identify(all, m.Body)
		if extra != "" {
			kind = "order"
		}
		return &failure{kind: kind, input: c.describe(bi, b, mi), msg: fmt.Sprintf("dir %d: %s%s", dir, d, extra)}
	}
	if c.k.raw {
		if d := l.chkHdr(dir, id, m); d != "" {
			return &failure{kind: "hdr", input: c.describe(bi, b, mi), msg: fmt.Sprintf("dir %d: body intact but %s", dir, d)}
		}
	}
	return nil
}

func lost(c *cell, bi int, b *batch, mi int, dir int, err error) *failure {
	return &failure{kind: "lost", timeout: true, input: c.describe(bi, b, mi),
		msg: fmt.Sprintf("dir %d: Send accepted the message but Recv on the connected peer returned %v (deadline %v)", dir, err, hangDeadline)}
}

func sendFail(c *cell, bi int, b *batch, mi int, dir int, err error) *failure {
	return &failure{kind: "send", timeout: true, input: c.describe(bi, b, mi),
		msg: fmt.Sprintf("dir %d: Send failed on a connected socket: %v", dir, err)}
}

// runOneWayBatch: all messages of the batch and the sentinel are sent back to back,
// then received in order.
func runOneWayBatch(c *cell, l *link, bi int, b *batch, rs *runStats) *failure {
	all := c.specs(bi, b, 0)
	ids := make([]uint32, len(all))
	for mi, ms := range all {
		ids[mi] = l.nextID()
		if err := l.send(b.dir, ids[mi], ms); err != nil {
			return sendFail(c, bi, b, mi, b.dir, err)
		}
	}
	for mi := range all {
		m, err := l.recv(b.dir, hangDeadline)
		if err != nil {
			return lost(c, bi, b, mi, b.dir, err)
		}
		f := verify(c, l, bi, b, mi, b.dir, ids[mi], all, m)
		rs.msgs++
		rs.bytes += len(m.Body)
		m.Free()
		if f != nil {
			return f
		}
	}
	return nil
}

// runReplyBatch: for each message: request with that body A->B, reply with a body of
// the same length (different seed) B->A.
func runReplyBatch(c *cell, l *link, bi int, b *batch, rs *runStats) *failure {
	reqs := c.specs(bi, b, 0)
	reps := c.specs(bi, b, 1)
	for mi := range reqs {
		id := l.nextID()
		for dir, all := range [][]mspec{reqs, reps} {
			if err := l.send(dir, id, all[mi]); err != nil {
				return sendFail(c, bi, b, mi, dir, err)
			}
			m, err := l.recv(dir, hangDeadline)
			if err != nil {
				return lost(c, bi, b, mi, dir, err)
			}
			f := verify(c, l, bi, b, mi, dir, id, all, m)
			rs.msgs++
			rs.bytes += len(m.Body)
			m.Free()
			if f != nil {
				return f
			}
		}
	}
	return nil
}

// runOver handles a batch whose last length is one byte over the receive limit: the
// preceding lengths (limit-1, limit) must be delivered on every transport; the
// over-limit message must not be delivered on transports that enforce the limit (it
// may be on inproc, intact); and a sentinel sent afterwards, on the re-established or
// still working connection, must arrive intact.  The sentinel is re-sent (new seed
// each time) until one gets through, because messages written into the connection
// that the receiver is tearing down are legitimately lost.
func runOver(c *cell, l *link, bi int, b *batch, rs *runStats) *failure {
	pre := &batch{sizes: b.sizes[:len(b.sizes)-1], fill: b.fill, dir: b.dir}
	overN := b.sizes[len(b.sizes)-1]
	overIdx := len(b.sizes) - 1
	var f *failure
	if c.k.mode == modeReply {
		f = runReplyBatch(c, l, bi, pre, rs) // both directions carry the sizes
	} else {
		f = runOneWayBatch(c, l, bi, pre, rs)
	}
	if f != nil {
		f.input += " [phase: lengths up to the limit, before the over-limit message]"
		return f
	}

	big := mspec{n: overN, seed: c.seed(bi, 1000, b.dir), fill: -1}
	type sent struct {
		id uint32
		ms mspec
	}
	var reqSent, repSent []sent // sentinels
	sawBig := false
	matchAny := func(list []sent, body []byte) *sent {
		for i := range list {
			if list[i].ms.diff(body) == "" {
				return &list[i]
			}
		}
		return nil
	}
	unknown := func(dir int, m *mangos.Message) *failure {
		return &failure{kind: "mismatch", input: c.describe(bi, b, overIdx),
			msg: fmt.Sprintf("dir %d: after the over-limit message a message of len %d arrived that is neither a sentinel nor the over-limit message (vs over-limit message: %s)", dir, len(m.Body), big.diff(m.Body))}
	}
	verdict := func() *failure {
		if sawBig {
			if c.t.enforce {
				return &failure{kind: "overlimit-delivered", input: c.describe(bi, b, overIdx),
					msg: fmt.Sprintf("a message of total size limit+1 (body %d + %d header bytes) was delivered intact although the transport enforces MaxRecvSize", overN, c.k.wire)}
			}
			rs.overInproc++
		} else {
			rs.overRejected++
		}
		return nil
	}

	until := time.Now().Add(overDeadline)
	n := 0
	newSentinel := func(leg int) sent {
		n++
		return sent{id: l.nextID(), ms: mspec{n: sentinelLen, seed: c.seed(bi, 2000+n, leg), fill: -1}}
	}
	waitBoth := func() bool { return l.ep[0].waitLive(until) && l.ep[1].waitLive(until) }

	if c.k.mode != modeReply {
		d := b.dir
		if err := l.send(d, l.nextID(), big); err != nil {
			rs.overSendError++
		}
		for time.Now().Before(until) {
			if !waitBoth() {
				break
			}
			s := newSentinel(0)
			reqSent = append(reqSent, s)
			_ = l.send(d, s.id, s.ms)
			for {
				m, err := l.recv(d, probeDeadline)
				if err != nil {
					break
				}
				rs.msgs++
				if big.diff(m.Body) == "" {
					sawBig = true
					m.Free()
					continue
				}
				hit := matchAny(reqSent, m.Body)
				if hit == nil {
					f := unknown(d, m)
					m.Free()
					return f
				}
				m.Free()
				return verdict()
			}
		}
		return &failure{kind: "lost", timeout: true, input: c.describe(bi, b, overIdx),
			msg: fmt.Sprintf("dir %d: after an over-limit message no sentinel got through within %v (%d sentinels sent on re-established connections)", d, overDeadline, len(reqSent))}
	}

	// reply modes
	var first sent // the small request that precedes an over-limit reply
	if b.dir == 0 {
		if err := l.send(0, l.nextID(), big); err != nil {
			rs.overSendError++
		}
	} else {
		first = sent{id: l.nextID(), ms: mspec{n: sentinelLen, seed: c.seed(bi, 1999, 0), fill: -1}}
		if err := l.send(0, first.id, first.ms); err != nil {
			return sendFail(c, bi, b, overIdx, 0, err)
		}
		m, err := l.recv(0, hangDeadline)
		if err != nil {
			return lost(c, bi, b, overIdx, 0, err)
		}
		if d := first.ms.diff(m.Body); d != "" {
			m.Free()
			return &failure{kind: "mismatch", input: c.describe(bi, b, overIdx), msg: "dir 0 (small request before the over-limit reply): " + d}
		}
		if c.k.raw {
			if d := l.chkHdr(0, first.id, m); d != "" {
				m.Free()
				return &failure{kind: "hdr", input: c.describe(bi, b, overIdx), msg: "dir 0: " + d}
			}
		}
		m.Free()
		if err := l.send(1, first.id, big); err != nil {
			rs.overSendError++
		}
	}
	if b.dir == 1 {
		// Give A the chance to receive the over-limit reply before a new request
		// cancels the outstanding one (cooked REQ / SURVEYOR discard stale replies).
		// Whatever arrives here must be the over-limit reply, intact.
		if m, err := l.recv(1, probeDeadline); err == nil {
			rs.msgs++
			d := big.diff(m.Body)
			m.Free()
			if d != "" {
				return &failure{kind: "mismatch", input: c.describe(bi, b, overIdx), msg: "dir 1 (over-limit reply was delivered, but not intact): " + d}
			}
			sawBig = true
		}
	}
	for time.Now().Before(until) {
		if !waitBoth() {
			break
		}
		s := newSentinel(0)
		reqSent = append(reqSent, s)
		_ = l.send(0, s.id, s.ms)
		// B answers every sentinel request it receives (a cooked REQ re-sends an
		// outstanding request on the new connection, so B may see more than one) until
		// nothing more arrives; then A looks for the reply to any of them.
		replied := 0
		for {
			m, err := l.recv(0, probeDeadline)
			if err != nil {
				break
			}
			rs.msgs++
			var got *sent
			switch {
			case b.dir == 0 && big.diff(m.Body) == "":
				sawBig = true
			case b.dir == 1 && first.ms.diff(m.Body) == "":
				rs.retransmit++ // REQ re-sends its outstanding request on the new connection
			default:
				if got = matchAny(reqSent, m.Body); got == nil {
					f := unknown(0, m)
					m.Free()
					return f
				}
				if c.k.raw {
					if d := l.chkHdr(0, got.id, m); d != "" {
						m.Free()
						return &failure{kind: "hdr", input: c.describe(bi, b, overIdx), msg: "dir 0 (sentinel request): " + d}
					}
				}
			}
			m.Free()
			if got != nil {
				r := sent{id: got.id, ms: mspec{n: sentinelLen, seed: got.ms.seed ^ 0x5a5a5a5a, fill: -1}}
				repSent = append(repSent, r)
				_ = l.send(1, r.id, r.ms)
				replied++
			}
		}
		if replied == 0 {
			continue
		}
		for {
			m, err := l.recv(1, probeDeadline)
			if err != nil {
				break
			}
			rs.msgs++
			if b.dir == 1 && big.diff(m.Body) == "" {
				sawBig = true
				m.Free()
				continue
			}
			hit := matchAny(repSent, m.Body)
			if hit == nil {
				f := unknown(1, m)
				m.Free()
				return f
			}
			if c.k.raw {
				if d := l.chkHdr(1, hit.id, m); d != "" {
					m.Free()
					return &failure{kind: "hdr", input: c.describe(bi, b, overIdx), msg: "dir 1 (sentinel reply): " + d}
				}
			}
			m.Free()
			return verdict()
		}
	}
	return &failure{kind: "lost", timeout: true, input: c.describe(bi, b, overIdx),
		msg: fmt.Sprintf("after an over-limit message (direction %d) no sentinel round trip completed within %v (%d sentinel requests sent)", b.dir, overDeadline, len(reqSent))}
}

// ---------------------------------------------------------------------------------
// driver

var cellSeq int64

func newCell(scen string, t *tran, k *kind, limit int) *cell {
	return &cell{id: int(atomic.AddInt64(&cellSeq, 1)), scen: scen, t: t, k: k, limit: limit}
}

func (c *cell) add(dir int, sizes []int, fill int, cases int, keys ...string) {
	c.batches = append(c.batches, &batch{sizes: append([]int{}, sizes...), fill: fill, dir: dir, cases: cases, keys: keys})
}

func (c *cell) addOver(dir int, sizes []int, keys ...string) {
	c.batches = append(c.batches, &batch{sizes: append([]int{}, sizes...), fill: -1, dir: dir, over: true, cases: len(sizes), keys: keys})
}

func classKey(n int) string {
	for _, k := range poolClasses {
		if n >= k-6 && n <= k+2 {
			return fmt.Sprintf("class%d", k)
		}
	}
	return ""
}

// execute runs one cell to completion, replaying and reporting failures.
func execute(st *ekit.Stats, c *cell) {
	var rs runStats
	from, nfail := 0, 0
	for from < len(c.batches) {
		f := runCell(c, from, len(c.batches), &rs)
		upto := len(c.batches)
		if f != nil {
			upto = f.batch // batches before the failing one passed
		}
		for bi := from; bi < upto; bi++ {
			b := c.batches[bi]
			st.Case(2 * (len(b.sizes) + 1))
			for i := 1; i < b.cases; i++ {
				st.Case(0)
			}
			for _, k := range b.keys {
				st.Nontrivial(c.t.name + "/" + c.k.name + "/" + k)
			}
		}
		if f == nil {
			break
		}
		st.Case(2)
		if f.kind == "setup" {
			st.Count("setup-failed")
			st.Cap(fmt.Sprintf("cell %s/%s/%s: %s", c.scen, c.t.name, c.k.name, f.msg))
			break
		}
		// replay the same run of batches (from where this link started, up to and
		// including the failing batch) three times, each on fresh sockets
		var repro int32
		var rwg sync.WaitGroup
		for i := 0; i < 3; i++ {
			rwg.Add(1)
			go func() {
				defer rwg.Done()
				var dummy runStats
				g := runCell(c, from, f.batch+1, &dummy)
				if g != nil && g.batch == f.batch && g.kind == f.kind {
					atomic.AddInt32(&repro, 1)
				}
			}()
		}
		rwg.Wait()
		sig := fmt.Sprintf("c01-%s:%s:%s", f.kind, c.t.name, c.k.name)
		vk := "fail"
		if f.timeout {
			vk = "hang"
		}
		switch {
		case repro > 0:
			st.Fail(sig, vk, f.input, "%s [reproduced %d/3 on fresh sockets]", f.msg, repro)
		case !f.timeout:
			// a data mismatch has no timing component in its oracle: it is a violation even
			// if it does not reproduce
			st.Fail(sig+":unreproduced", vk, f.input, "%s [seen once, reproduced 0/3 on fresh sockets]", f.msg)
		default:
			st.Count("timeout-not-reproduced")
			st.Sample(map[string]string{"unreproduced": f.msg, "input": f.input})
		}
		nfail++
		if f.timeout || nfail >= maxCellFails {
			if f.batch+1 < len(c.batches) {
				st.Cap(fmt.Sprintf("cell %s/%s/%s abandoned after %d failure(s) (%s) at batch %d of %d", c.scen, c.t.name, c.k.name, nfail, f.kind, f.batch, len(c.batches)))
			}
			break
		}
		from = f.batch + 1
	}
	add := func(name string, n int) {
		for i := 0; i < n; i++ {
			st.Count(name)
		}
	}
	st.Count("cells")
	add("msgs-verified", rs.msgs)
	add("mbytes-verified", rs.bytes>>20)
	add("overlimit-not-delivered", rs.overRejected)
	add("overlimit-delivered-intact-on-inproc", rs.overInproc)
	add("req-retransmit-tolerated", rs.retransmit)
	add("overlimit-send-error", rs.overSendError)
}

func runCells(st *ekit.Stats, cells []*cell) {
	// big cells first
	sort.SliceStable(cells, func(i, j int) bool { return len(cells[i].batches) > len(cells[j].batches) })
	sem := make(chan struct{}, parallelCells)
	var wg sync.WaitGroup
	for _, c := range cells {
		if st.OutOfTime() {
			st.Cap("wall clock budget exhausted before all cells ran")
			break
		}
		sem <- struct{}{}
		wg.Add(1)
		go func(c *cell) {
			defer wg.Done()
			defer func() { <-sem }()
			execute(st, c)
		}(c)
	}
	wg.Wait()
}

// ---------------------------------------------------------------------------------
// scenarios

func eachCell(scen string, limit int, ts []*tran, ks []*kind, f func(c *cell)) []*cell {
	var out []*cell
	for _, t := range ts {
		for _, k := range ks {
			c := newCell(scen, t, k, limit)
			f(c)
			out = append(out, c)
		}
	}
	return out
}

func boundaryGroups() [][]int {
	g := [][]int{{0, 1, 2, 3}}
	for _, k := range poolClasses {
		// k-2..k+2 for the body, and the same for body+4 (patterns with a 4 byte
		// protocol header: the receiving transport allocates for header+body)
		g = append(g, []int{k - 6, k - 5, k - 4, k - 3, k - 2, k - 1, k, k + 1, k + 2})
	}
	return g
}

func scenBoundary(st *ekit.Stats, tier string) {
	cells := eachCell("boundary-sizes", 0, trans, kinds, func(c *cell) {
		for _, d := range c.k.dirsForData() {
			for gi, g := range boundaryGroups() {
				key := "small"
				if gi > 0 {
					key = classKey(g[len(g)-1])
				}
				c.add(d, g, -1, len(g), fmt.Sprintf("dir%d/%s", d, key))
			}
		}
	})
	runCells(st, cells)
}

// dirsForData: directions in which plain data batches are run.  Reply modes carry
// every size in both directions within one batch.
func (k *kind) dirsForData() []int {
	if k.mode == modeSym {
		return []int{0, 1}
	}
	return []int{0}
}

func scenEveryLength(st *ekit.Stats, tier string) {
	max := 130
	if tier == "thorough" {
		max = 1100
	}
	st.Note = fmt.Sprintf("every body length 0..%d, all 16 pairings x 6 transports", max)
	cells := eachCell("every-length", 0, trans, kinds, func(c *cell) {
		for _, d := range c.k.dirsForData() {
			for lo := 0; lo <= max; lo += 8 {
				var g []int
				var keys []string
				seen := map[string]bool{}
				for n := lo; n < lo+8 && n <= max; n++ {
					g = append(g, n)
					if ck := classKey(n); ck != "" && !seen[ck] {
						seen[ck] = true
						keys = append(keys, fmt.Sprintf("dir%d/%s", d, ck))
					}
				}
				c.add(d, g, -1, len(g), keys...)
			}
		}
	})
	runCells(st, cells)
}

// alphabet of the ordered pairs / triples: the stated body lengths, plus, for
// patterns with a 4 byte wire header, the body lengths whose header+body total is a
// pool class size.
func (k *kind) alphabet() []int {
	a := append([]int{}, pairAlphabet...)
	if k.wire > 0 {
		a = append(a, 64-k.wire, 128-k.wire, 1024-k.wire, 4096-k.wire)
		sort.Ints(a)
	}
	return a
}

func scenPairs(st *ekit.Stats, tier string) {
	cells := eachCell("ordered-pairs", 0, trans, kinds, func(c *cell) {
		for _, d := range c.k.dirsForData() {
			for _, a := range c.k.alphabet() {
				for _, b := range c.k.alphabet() {
					c.add(d, []int{a, b}, -1, 1, fmt.Sprintf("dir%d/%d-then-%d", d, a, b))
				}
			}
		}
	})
	runCells(st, cells)
}

func scenTriples(st *ekit.Stats, tier string) {
	ks := kinds
	st.Note = "all 16 pairings"
	if tier != "thorough" {
		ks = []*kind{kindByName("pair"), kindByName("reqrep")}
		st.Note = "quick tier: pair and reqrep only"
	}
	cells := eachCell("ordered-triples", 0, trans, ks, func(c *cell) {
		for _, d := range c.k.dirsForData() {
			for _, a := range c.k.alphabet() {
				for _, b := range c.k.alphabet() {
					for _, e := range c.k.alphabet() {
						c.add(d, []int{a, b, e}, -1, 1, fmt.Sprintf("dir%d/%d-%d-%d", d, a, b, e))
					}
				}
			}
		}
	})
	runCells(st, cells)
}

func scenEveryLength8k(st *ekit.Stats, tier string) {
	ks := []*kind{kindByName("pair"), kindByName("reqrep"), kindByName("xreqxrep"), kindByName("pubsub"), kindByName("xstar")}
	st.Note = "every body length 1101..8300; pair, reqrep, xreqxrep, pubsub, xstar"
	if tier != "thorough" {
		ks = ks[:1]
		st.Note = "every body length 1101..8300; quick tier: pair only"
	}
	cells := eachCell("every-length-8k", 0, trans, ks, func(c *cell) {
		for _, d := range c.k.dirsForData() {
			for lo := 1101; lo <= 8300; lo += 8 {
				var g []int
				var keys []string
				for n := lo; n < lo+8 && n <= 8300; n++ {
					g = append(g, n)
					if ck := classKey(n); ck != "" {
						keys = append(keys, fmt.Sprintf("dir%d/%s", d, ck))
					}
				}
				c.add(d, g, -1, len(g), keys...)
			}
		}
	})
	runCells(st, cells)
}

func scenEveryLength64k(st *ekit.Stats, tier string) {
	hi := 65600
	st.Note = "pair, A->B, every body length 8301..65600"
	if tier != "thorough" {
		hi = 16500
		st.Note = "pair, A->B, quick tier: every body length 8301..16500"
	}
	cells := eachCell("every-length-64k", 0, trans, []*kind{kindByName("pair")}, func(c *cell) {
		for lo := 8301; lo <= hi; lo += 4 {
			var g []int
			var keys []string
			keys = append(keys, fmt.Sprintf("dir0/lengths-%dk", lo/4096*4))
			for n := lo; n < lo+4 && n <= hi; n++ {
				g = append(g, n)
				if ck := classKey(n); ck != "" {
					keys = append(keys, "dir0/"+ck)
				}
			}
			c.add(0, g, -1, len(g), keys...)
		}
	})
	runCells(st, cells)
}

func scenByteValues(st *ekit.Stats, tier string) {
	cells := eachCell("byte-values", 0, trans, kinds, func(c *cell) {
		for _, d := range c.k.dirsForData() {
			for w := 0; w < 256; w++ {
				c.add(d, []int{1, 5, 9}, w, 1, fmt.Sprintf("dir%d/value%d", d, w))
			}
		}
	})
	runCells(st, cells)
}

func limitCells(scen string, limit int, ts []*tran, ks []*kind) []*cell {
	return eachCell(scen, limit, ts, ks, func(c *cell) {
		eff := limit
		if eff == 0 {
			eff = defaultLimit
		}
		body := eff - c.k.wire // body length whose total wire size equals the limit
		for _, d := range c.k.dirs() {
			c.addOver(d, []int{body - 1, body, body + 1}, fmt.Sprintf("dir%d/limit-1", d), fmt.Sprintf("dir%d/limit", d), fmt.Sprintf("dir%d/limit+1", d))
		}
	})
}

func scenLimitSmall(st *ekit.Stats, tier string) {
	// one cell per direction so that each over-limit op is the last op on its link
	runCells(st, splitOver(limitCells("recv-limit-4096", smallLimit, trans, kinds)))
}

func scenLimitDefault(st *ekit.Stats, tier string) {
	ks := kinds
	if tier != "thorough" {
		ks = []*kind{kindByName("pair"), kindByName("reqrep"), kindByName("xreqxrep"), kindByName("pubsub")}
	}
	runCells(st, splitOver(limitCells("recv-limit-default-1MiB", 0, trans, ks)))
}

// splitOver gives every over-limit batch its own cell (fresh link).
func splitOver(in []*cell) []*cell {
	var out []*cell
	for _, c := range in {
		for _, b := range c.batches {
			n := newCell(c.scen, c.t, c.k, c.limit)
			n.batches = []*batch{b}
			out = append(out, n)
		}
	}
	return out
}

func init() {
	ekit.Register("C01", ekit.Scenario{Name: "boundary-sizes", Run: scenBoundary})
	ekit.Register("C01", ekit.Scenario{Name: "every-length", Run: scenEveryLength})
	ekit.Register("C01", ekit.Scenario{Name: "ordered-pairs", Run: scenPairs})
	ekit.Register("C01", ekit.Scenario{Name: "byte-values", Run: scenByteValues})
	ekit.Register("C01", ekit.Scenario{Name: "ordered-triples", Run: scenTriples})
	ekit.Register("C01", ekit.Scenario{Name: "every-length-8k", Run: scenEveryLength8k})
	ekit.Register("C01", ekit.Scenario{Name: "every-length-64k", Run: scenEveryLength64k})
	ekit.Register("C01", ekit.Scenario{Name: "recv-limit-4096", Run: scenLimitSmall})
	ekit.Register("C01", ekit.Scenario{Name: "recv-limit-default-1MiB", Run: scenLimitDefault})
}
