package c01

// Scenario recv-limit-set-after-start: OptionMaxRecvSize changed AFTER Listen / Dial, on the
// socket or on the listener / dialer object itself, governs every connection made from then on
// (the value GetOption reports is the value in force).  For every transport and both roles of
// the receiving socket:
//
//	Listen (or Dial) first; optionally one connection is used and closed; then
//	SetOption(OptionMaxRecvSize, v) for v in {4 MiB, 0 = no limit, 2048}; then a NEW connection:
//	  v = 4 MiB : 1 MiB + 1 (above the default that was in force at Listen / Dial time) and 4 MiB
//	              are delivered, 4 MiB + 1 is not
//	  v = 0     : 1 MiB + 1 and 4 MiB + 1 are delivered
//	  v = 2048  : 2047 and 2048 are delivered, 2049 is not
//
// PAIR is used (no protocol header: body length = size on the wire).  "Not delivered" is decided
// by a sentinel that arrives on a fresh connection behind the over-limit message (as in
// recv-limit-4096); "delivered" by the message itself, intact.  A message that has not arrived
// is given up only after the connection it was sent on has been seen to detach on the receiving
// socket and a Recv started after that found nothing, or after the 15 s hang deadline.  inproc
// does not enforce the limit (an over-limit message may arrive, intact).

import (
	"fmt"
	"sync"
	"sync/atomic"
	"time"

	"go.nanomsg.org/mangos/v3"
	"go.nanomsg.org/mangos/v3/protocol/pair"
	"go.nanomsg.org/mangos/v3/ve/ekit"
)

const lateBig = 4 << 20

var lateValues = []int{lateBig, 0, 2048}

type lateCase struct {
	t      *tran
	role   string // role of the receiving socket: "listener" or "dialer"
	setter string // "socket" or "endpoint" (the listener / dialer object)
	v      int
	prior  bool // a message crossed an earlier connection before the option was changed
}

func (c lateCase) plan() (deliver []int, over int) {
	switch c.v {
	case 0:
		return []int{defaultLimit + 1, lateBig + 1}, -1
	case 2048:
		return []int{2047, 2048}, 2049
	}
	return []int{defaultLimit + 1, c.v}, c.v + 1
}

func (c lateCase) describe() string {
	ep := "Listener"
	first := "R.NewListener(addr).Listen()"
	conn := "a new socket S dials addr"
	if c.role == "dialer" {
		ep = "Dialer"
		first = "S listens; R.NewDialer(addr).Dial() (connected)"
		conn = "S closes the pipe of that connection (Pipe.Close), R's dialer connects again"
	}
	set := fmt.Sprintf("R.SetOption(OptionMaxRecvSize, %d)", c.v)
	if c.setter == "endpoint" {
		set = fmt.Sprintf("the %s object's SetOption(OptionMaxRecvSize, %d)", ep, c.v)
	}
	pr := ""
	if c.prior {
		pr = "; a 9 byte message crosses the first connection"
		if c.role == "listener" {
			pr = "; a first peer dials, sends 9 bytes and is closed"
		}
	}
	d, o := c.plan()
	s := fmt.Sprintf("scenario=recv-limit-set-after-start transport=%s pattern=pair, R = receiving socket (%s role): %s%s; %s; then %s and sends bodies of %v bytes (must be delivered)", c.t.name, c.role, first, pr, set, conn, d)
	if o > 0 {
		s += fmt.Sprintf(", then %d bytes (must not be delivered) and a %d byte sentinel on a fresh connection", o, sentinelLen)
	}
	return s
}

type lateStats struct {
	delivered, overRejected, overInproc, epUnsupported, reported int64
}

// recvOrDropped receives the next message on n.  If the pipe count of n shows a detach since
// det0 and a Recv started after that still finds nothing, the message is not coming.
func recvOrDropped(n *node, det0 int) (*mangos.Message, string) {
	_ = n.s.SetOption(mangos.OptionRecvDeadline, probeDeadline)
	defer func() { _ = n.s.SetOption(mangos.OptionRecvDeadline, hangDeadline) }()
	until := time.Now().Add(hangDeadline)
	sawDetach := false
	for {
		m, err := n.s.RecvMsg()
		if err == nil {
			return m, ""
		}
		if err != mangos.ErrRecvTimeout {
			return nil, "Recv returned " + err.Error()
		}
		if sawDetach {
			return nil, "the receiving socket closed the connection the message was sent on (pipe detached) and delivered nothing"
		}
		n.mu.Lock()
		sawDetach = n.det > det0
		n.mu.Unlock()
		if !sawDetach && time.Now().After(until) {
			return nil, fmt.Sprintf("nothing delivered within %v", hangDeadline)
		}
	}
}

func (n *node) counts() (att, det int) {
	n.mu.Lock()
	defer n.mu.Unlock()
	return n.att, n.det
}

// waitIdle waits until no pipe is attached.
func (n *node) waitIdle(until time.Time) bool {
	for {
		n.mu.Lock()
		live, w := n.att-n.det, n.wake
		n.mu.Unlock()
		if live <= 0 {
			return true
		}
		d := time.Until(until)
		if d <= 0 {
			return false
		}
		t := time.NewTimer(d)
		select {
		case <-w:
		case <-t.C:
		}
		t.Stop()
	}
}

// waitAttachedN waits until n pipes have been attached in total and one is live.
func (n *node) waitAttachedN(k int, until time.Time) bool {
	for {
		n.mu.Lock()
		att, live, w := n.att, n.att-n.det, n.wake
		n.mu.Unlock()
		if att >= k && live >= 1 {
			return true
		}
		d := time.Until(until)
		if d <= 0 {
			return false
		}
		t := time.NewTimer(d)
		select {
		case <-w:
		case <-t.C:
		}
		t.Stop()
	}
}

type optObj interface {
	SetOption(string, interface{}) error
	GetOption(string) (interface{}, error)
}

func runLate(c lateCase, id int, ls *lateStats) *failure {
	in := c.describe()
	fail := func(kind string, timeout bool, format string, a ...interface{}) *failure {
		return &failure{kind: kind, timeout: timeout, input: in, msg: fmt.Sprintf(format, a...)}
	}
	setup := func(format string, a ...interface{}) *failure { return fail("setup", true, format, a...) }
	seed := func(a, b int) uint64 { return mix(uint64(id)<<44 ^ 0x1a7e<<28 ^ uint64(a)<<12 ^ uint64(b)) }

	R, err := newNode(pair.NewSocket)
	if err != nil {
		return setup("%v", err)
	}
	S, err := newNode(pair.NewSocket)
	if err != nil {
		closeNodes(R)
		return setup("%v", err)
	}
	nodes := []*node{R, S}
	defer func() { closeNodes(nodes...) }()
	for _, n := range nodes {
		if err := n.s.SetOption(mangos.OptionReconnectTime, 10*time.Millisecond); err != nil {
			return setup("%v", err)
		}
	}
	so, err := c.t.opts(true)
	if err != nil {
		return setup("%v", err)
	}
	co, err := c.t.opts(false)
	if err != nil {
		return setup("%v", err)
	}
	until := func() time.Time { return time.Now().Add(attachDeadline) }
	small := mspec{n: 9, seed: seed(0, 0), fill: -1}
	smallExchange := func(from *node) *failure {
		if err := from.send(nil, small); err != nil {
			return setup("first connection: Send: %v", err)
		}
		m, err := R.s.RecvMsg()
		if err != nil {
			return setup("first connection: Recv: %v", err)
		}
		d := small.diff(m.Body)
		m.Free()
		if d != "" {
			return fail("mismatch", false, "first connection (before the option was changed): %s", d)
		}
		return nil
	}

	var ep optObj
	var connect func() *failure
	if c.role == "listener" {
		l, err := R.s.NewListener(c.t.listenAddr(), so)
		if err != nil {
			return setup("new listener: %v", err)
		}
		if err := l.Listen(); err != nil {
			return setup("listen: %v", err)
		}
		ep = l
		if c.prior {
			S0, err := newNode(pair.NewSocket)
			if err != nil {
				return setup("%v", err)
			}
			nodes = append(nodes, S0)
			if err := S0.s.DialOptions(l.Address(), co); err != nil {
				return setup("first peer: dial: %v", err)
			}
			u := until()
			if !R.waitLive(1, u) || !S0.waitLive(1, u) {
				return setup("first peer: not attached within %v", attachDeadline)
			}
			if f := smallExchange(S0); f != nil {
				return f
			}
			_ = S0.s.Close()
			if !R.waitIdle(until()) {
				return setup("first peer closed, its pipe did not detach within %v", attachDeadline)
			}
		}
		connect = func() *failure {
			if err := S.s.DialOptions(l.Address(), co); err != nil {
				return setup("dial: %v", err)
			}
			u := until()
			if !R.waitLive(1, u) || !S.waitLive(1, u) {
				return setup("new connection: not attached within %v", attachDeadline)
			}
			return nil
		}
	} else {
		l, err := S.s.NewListener(c.t.listenAddr(), so)
		if err != nil {
			return setup("new listener: %v", err)
		}
		if err := l.Listen(); err != nil {
			return setup("listen: %v", err)
		}
		d, err := R.s.NewDialer(l.Address(), co)
		if err != nil {
			return setup("new dialer: %v", err)
		}
		if err := d.Dial(); err != nil {
			return setup("dial: %v", err)
		}
		ep = d
		u := until()
		if !R.waitLive(1, u) || !S.waitLive(1, u) {
			return setup("first connection: not attached within %v", attachDeadline)
		}
		if c.prior {
			if f := smallExchange(S); f != nil {
				return f
			}
		}
		connect = func() *failure {
			p := S.lastPipe()
			if p == nil {
				return setup("no pipe to close")
			}
			_ = p.Close()
			u := until()
			if !R.waitAttachedN(2, u) || !S.waitAttachedN(2, u) {
				return setup("the dialer did not connect again within %v", attachDeadline)
			}
			return nil
		}
	}

	// the option is changed after Listen / Dial
	enforce := c.t.enforce
	epSet := true
	if c.setter == "socket" {
		if err := R.s.SetOption(mangos.OptionMaxRecvSize, c.v); err != nil {
			return fail("option", false, "Socket.SetOption(OptionMaxRecvSize, %d) after %s: %v", c.v, c.role, err)
		}
		if got, err := R.s.GetOption(mangos.OptionMaxRecvSize); err != nil || got != c.v {
			return fail("option", false, "Socket.GetOption(OptionMaxRecvSize) after SetOption(%d): %v, %v", c.v, got, err)
		}
	} else if err := ep.SetOption(mangos.OptionMaxRecvSize, c.v); err != nil {
		if err != mangos.ErrBadOption || enforce {
			return fail("option", false, "%s object: SetOption(OptionMaxRecvSize, %d) after it was started: %v", c.role, c.v, err)
		}
		atomic.AddInt64(&ls.epUnsupported, 1) // inproc endpoints have no options; nothing is enforced there
		epSet = false
	}
	if got, err := ep.GetOption(mangos.OptionMaxRecvSize); !epSet {
		// refused by the object: what it reports is not this scenario's business
	} else if err == nil {
		if got != c.v {
			return fail("option", false, "option set to %d through the %s; the %s object's GetOption(OptionMaxRecvSize) reports %v", c.v, c.setter, c.role, got)
		}
		atomic.AddInt64(&ls.reported, 1)
	} else if enforce {
		return fail("option", false, "%s object: GetOption(OptionMaxRecvSize): %v", c.role, err)
	}

	if f := connect(); f != nil {
		return f
	}

	deliver, over := c.plan()
	for i, n := range deliver {
		ms := mspec{n: n, seed: seed(1, i), fill: -1}
		_, det0 := R.counts()
		if err := S.send(nil, ms); err != nil {
			return fail("send", true, "Send of %d bytes on the new connection failed: %v", n, err)
		}
		m, why := recvOrDropped(R, det0)
		if m == nil {
			return fail("lost", true, "MaxRecvSize is %d (GetOption agrees); a message of %d bytes sent over a connection made after the change was not delivered: %s", c.v, n, why)
		}
		d := ms.diff(m.Body)
		m.Free()
		if d != "" {
			return fail("mismatch", false, "message of %d bytes on the new connection: %s", n, d)
		}
		atomic.AddInt64(&ls.delivered, 1)
	}
	if over < 0 {
		return nil
	}

	// the over-limit message, then sentinels until one gets through
	big := mspec{n: over, seed: seed(2, 0), fill: -1}
	_ = S.send(nil, big)
	sawBig := false
	stop := time.Now().Add(overDeadline)
	_ = R.s.SetOption(mangos.OptionRecvDeadline, probeDeadline)
	for k := 0; time.Now().Before(stop); k++ {
		if !R.waitLive(1, stop) || !S.waitLive(1, stop) {
			break
		}
		sn := mspec{n: sentinelLen, seed: seed(3, k), fill: -1}
		_ = S.send(nil, sn)
		for {
			m, err := R.s.RecvMsg()
			if err != nil {
				break
			}
			if big.diff(m.Body) == "" {
				sawBig = true
				m.Free()
				continue
			}
			ok := false
			for j := 0; j <= k; j++ {
				if (mspec{n: sentinelLen, seed: seed(3, j), fill: -1}).diff(m.Body) == "" {
					ok = true
				}
			}
			if !ok {
				d := big.diff(m.Body)
				m.Free()
				return fail("mismatch", false, "after the over-limit message a message arrived that is neither a sentinel nor that message (compared with it: %s)", d)
			}
			m.Free()
			if sawBig {
				if enforce {
					return fail("overlimit-delivered", false, "MaxRecvSize is %d (GetOption agrees); a message of %d bytes sent over a connection made after the change was delivered", c.v, over)
				}
				atomic.AddInt64(&ls.overInproc, 1)
			} else {
				atomic.AddInt64(&ls.overRejected, 1)
			}
			return nil
		}
	}
	return fail("lost", true, "after the over-limit message (%d bytes) no sentinel got through within %v", over, overDeadline)
}

var lateSeq int64

func scenLimitLate(st *ekit.Stats, tier string) {
	st.Note = "6 transports x receiving socket listens / dials x option changed on the socket / on the listener or dialer object x value {4 MiB, 0, 2048} x {fresh, after a first connection was used}; PAIR"
	var cases []lateCase
	for _, t := range trans {
		for _, role := range []string{"listener", "dialer"} {
			for _, setter := range []string{"socket", "endpoint"} {
				for _, v := range lateValues {
					for _, prior := range []bool{false, true} {
						cases = append(cases, lateCase{t, role, setter, v, prior})
					}
				}
			}
		}
	}
	var ls lateStats
	sem := make(chan struct{}, parallelCells)
	var wg sync.WaitGroup
	for _, c := range cases {
		if st.OutOfTime() {
			st.Cap("wall clock budget exhausted before all cases ran")
			break
		}
		sem <- struct{}{}
		wg.Add(1)
		go func(c lateCase) {
			defer wg.Done()
			defer func() { <-sem }()
			executeLate(st, c, &ls)
		}(c)
	}
	wg.Wait()
	add := func(name string, n int64) {
		for i := int64(0); i < n; i++ {
			st.Count(name)
		}
	}
	add("delivered-above-the-old-limit-or-at-the-new-one", ls.delivered)
	add("overlimit-not-delivered", ls.overRejected)
	add("overlimit-delivered-intact-on-inproc", ls.overInproc)
	add("endpoint-reports-the-new-value", ls.reported)
	add("inproc-endpoint-has-no-options", ls.epUnsupported)
	st.Sample(map[string]string{"case": cases[0].describe()})
	st.Sample(map[string]string{"case": cases[len(cases)-1].describe()})
}

func executeLate(st *ekit.Stats, c lateCase, ls *lateStats) {
	run := func(s *lateStats) *failure {
		var f *failure
		for try := 0; try < 3; try++ {
			if f = runLate(c, int(atomic.AddInt64(&lateSeq, 1)), s); f == nil || f.kind != "setup" {
				break
			}
		}
		return f
	}
	f := run(ls)
	d, o := c.plan()
	ops := 6 + 2*len(d)
	if o > 0 {
		ops += 4
	}
	st.Case(ops)
	st.Count("cases")
	key := fmt.Sprintf("%s/%s/set-on-%s/%d/prior-%v", c.t.name, c.role, c.setter, c.v, c.prior)
	if f == nil {
		st.Nontrivial(key)
		return
	}
	if f.kind == "setup" {
		st.Count("setup-failed")
		st.Cap(fmt.Sprintf("case %s: %s", key, f.msg))
		return
	}
	var repro int32
	var rwg sync.WaitGroup
	for i := 0; i < 3; i++ {
		rwg.Add(1)
		go func() {
			defer rwg.Done()
			var dummy lateStats
			if g := run(&dummy); g != nil && g.kind == f.kind {
				atomic.AddInt32(&repro, 1)
			}
		}()
	}
	rwg.Wait()
	sig := fmt.Sprintf("late-limit-%s:%s:%s:set-on-%s:%d", f.kind, c.t.name, c.role, c.setter, c.v)
	vk := "fail"
	if f.timeout {
		vk = "hang"
	}
	switch {
	case repro > 0:
		st.Fail(sig, vk, f.input, "%s [reproduced %d/3 on fresh sockets]", f.msg, repro)
	case !f.timeout:
		st.Fail(sig+":unreproduced", vk, f.input, "%s [seen once, reproduced 0/3 on fresh sockets]", f.msg)
	default:
		st.Count("timeout-not-reproduced")
		st.Sample(map[string]string{"unreproduced": f.msg, "input": f.input})
	}
}

func init() {
	for _, prop := range []string{"C01", "C15", "C19"} {
		ekit.Register(prop, ekit.Scenario{Name: "recv-limit-set-after-start", Run: scenLimitLate})
	}
}
