package c01

// Scenario fanout-and-retransmit: one message that the library hands to the transport more
// than once - to several peers (SURVEYOR, STAR, PUB, BUS fan-out, also through the raw
// sockets), or to the same peer again (REQ retransmission after the retry time, or on a new
// connection after the old one was dropped) - arrives with exactly the bytes the application
// sent, every time, over every transport.  C17: the transport does not own a message
// exclusively while other pipes / the REQ socket still hold it, so every transmission must
// find it unchanged.
//
// Oracle (data only): every receiver gets exactly the body sent, one receive per send, in
// order; the transmissions of one request seen by a raw REP peer are byte-identical (same
// request id word, body = what was sent); replies come back intact.  Deadlines (15 s) are
// hang detectors; a failing cell is replayed three times on fresh sockets.

import (
	"bytes"
	"encoding/binary"
	"fmt"
	"strings"
	"sync"
	"sync/atomic"
	"time"

	"go.nanomsg.org/mangos/v3"
	"go.nanomsg.org/mangos/v3/protocol/bus"
	"go.nanomsg.org/mangos/v3/protocol/pair1"
	"go.nanomsg.org/mangos/v3/protocol/pub"
	"go.nanomsg.org/mangos/v3/protocol/req"
	"go.nanomsg.org/mangos/v3/protocol/respondent"
	"go.nanomsg.org/mangos/v3/protocol/star"
	"go.nanomsg.org/mangos/v3/protocol/sub"
	"go.nanomsg.org/mangos/v3/protocol/surveyor"
	"go.nanomsg.org/mangos/v3/protocol/xbus"
	"go.nanomsg.org/mangos/v3/protocol/xpub"
	"go.nanomsg.org/mangos/v3/protocol/xrep"
	"go.nanomsg.org/mangos/v3/protocol/xstar"
	"go.nanomsg.org/mangos/v3/protocol/xsurveyor"
	"go.nanomsg.org/mangos/v3/ve/ekit"
)

var fanSizes = []int{0, 1, 9, 300, 70000}

const reqRetry = 100 * time.Millisecond

// ---------------------------------------------------------------------------------
// a socket with its pipe events

type node struct {
	s    mangos.Socket
	mu   sync.Mutex
	att  int
	det  int
	last mangos.Pipe
	wake chan struct{}
}

func newNode(mk func() (mangos.Socket, error)) (*node, error) {
	s, err := mk()
	if err != nil {
		return nil, err
	}
	n := &node{s: s, wake: make(chan struct{})}
	s.SetPipeEventHook(func(ev mangos.PipeEvent, p mangos.Pipe) {
		n.mu.Lock()
		switch ev {
		case mangos.PipeEventAttached:
			n.att++
			n.last = p
		case mangos.PipeEventDetached:
			n.det++
		default:
			n.mu.Unlock()
			return
		}
		close(n.wake)
		n.wake = make(chan struct{})
		n.mu.Unlock()
	})
	for _, o := range []string{mangos.OptionSendDeadline, mangos.OptionRecvDeadline} {
		if err := setOpt(s, o, hangDeadline); err != nil {
			_ = s.Close()
			return nil, err
		}
	}
	return n, nil
}

// waitLive waits until at least k pipes are attached and not detached.
func (n *node) waitLive(k int, until time.Time) bool {
	for {
		n.mu.Lock()
		live, w := n.att-n.det, n.wake
		n.mu.Unlock()
		if live >= k {
			return true
		}
		d := time.Until(until)
		if d <= 0 {
			return false
		}
		t := time.NewTimer(d)
		select {
		case <-w:
		case <-t.C:
		}
		t.Stop()
	}
}

func (n *node) lastPipe() mangos.Pipe {
	n.mu.Lock()
	defer n.mu.Unlock()
	return n.last
}

func (n *node) send(hdr []byte, ms mspec) error {
	m := mangos.NewMessage(ms.n)
	m.Body = ms.appendTo(m.Body[:0])
	if hdr != nil {
		m.Header = append(m.Header[:0], hdr...)
	}
	err := n.s.SendMsg(m)
	if err != nil {
		m.Free()
	}
	return err
}

func closeNodes(ns ...*node) {
	for _, n := range ns {
		if n != nil && n.s != nil {
			_ = n.s.Close()
		}
	}
}

// connectNodes: the listening node listens, every other node dials it.
func connectNodes(t *tran, lst *node, dialers []*node, reconnect bool) error {
	so, err := t.opts(true)
	if err != nil {
		return err
	}
	co, err := t.opts(false)
	if err != nil {
		return err
	}
	l, err := lst.s.NewListener(t.listenAddr(), so)
	if err != nil {
		return fmt.Errorf("new listener: %v", err)
	}
	if err := l.Listen(); err != nil {
		return fmt.Errorf("listen: %v", err)
	}
	for _, d := range dialers {
		if reconnect {
			if err := d.s.SetOption(mangos.OptionReconnectTime, 10*time.Millisecond); err != nil {
				return err
			}
		}
		if err := d.s.DialOptions(l.Address(), co); err != nil {
			return fmt.Errorf("dial %s: %v", l.Address(), err)
		}
	}
	until := time.Now().Add(attachDeadline)
	if !lst.waitLive(len(dialers), until) {
		return fmt.Errorf("listener has fewer than %d pipes attached after %v", len(dialers), attachDeadline)
	}
	for _, d := range dialers {
		if !d.waitLive(1, until) {
			return fmt.Errorf("dialer not attached after %v", attachDeadline)
		}
	}
	return nil
}

// ---------------------------------------------------------------------------------
// fan-out

type fanKind struct {
	name    string
	wire    int // SP header bytes in front of the body on the wire
	newHub  func() (mangos.Socket, error)
	newLeaf func() (mangos.Socket, error)
	leaves  []int
	hubHdr  func(id uint32) []byte // raw hubs: the header the application supplies
	back    string                 // "", "reply" (every leaf answers), "leaf0" (leaf 0 sends, the hub receives), "leaf0-forward" (... and the other leaves too)
}

func subAllSocket() (mangos.Socket, error) {
	s, err := sub.NewSocket()
	if err == nil {
		err = s.SetOption(mangos.OptionSubscribe, []byte{})
	}
	return s, err
}

func longSurveyor() (mangos.Socket, error) {
	s, err := surveyor.NewSocket()
	if err == nil {
		// the survey must not expire while the harness is descheduled
		err = s.SetOption(mangos.OptionSurveyTime, 10*time.Minute)
	}
	return s, err
}

var fanKinds = []*fanKind{
	{"survey", 4, longSurveyor, respondent.NewSocket, []int{2, 3}, nil, "reply"},
	{"star", 4, star.NewSocket, star.NewSocket, []int{2, 3}, nil, "leaf0-forward"},
	{"pubsub", 0, pub.NewSocket, subAllSocket, []int{2, 3}, nil, ""},
	{"bus", 0, bus.NewSocket, bus.NewSocket, []int{2, 3}, nil, "leaf0"},
	{"pair1", 4, pair1.NewSocket, pair1.NewSocket, []int{1}, nil, "leaf0"},
	{"xsurveyor-hub", 4, xsurveyor.NewSocket, respondent.NewSocket, []int{2, 3}, func(id uint32) []byte { return be32(id | 0x80000000) }, ""},
	{"xstar-hub", 4, xstar.NewSocket, star.NewSocket, []int{2, 3}, func(uint32) []byte { return []byte{0, 0, 0, 0} }, ""},
	{"xpub-hub", 0, xpub.NewSocket, subAllSocket, []int{2, 3}, nil, ""},
	{"xbus-hub", 0, xbus.NewSocket, bus.NewSocket, []int{2, 3}, nil, ""},
}

type fcell struct {
	id    int
	t     *tran
	what  string // pattern / variant
	input string
	keys  []string
	run   func(fc *fcell, fs *fanStats) *failure
}

type fanStats struct {
	msgs, retrans, reconn, replies int64
}

func (fc *fcell) seed(a, b, c int) uint64 {
	return mix(uint64(fc.id)<<44 ^ 0xfa<<36 ^ uint64(a)<<24 ^ uint64(b)<<8 ^ uint64(c))
}

func (fc *fcell) fail(kind string, timeout bool, format string, a ...interface{}) *failure {
	return &failure{kind: kind, timeout: timeout, input: fc.input, msg: fmt.Sprintf(format, a...)}
}

// expect receives one message on n and compares it with ms.
func (fc *fcell) expect(n *node, who string, ms mspec, step string) (*mangos.Message, *failure) {
	m, err := n.s.RecvMsg()
	if err != nil {
		return nil, fc.fail("lost", true, "%s: %s: a message of %d bytes was accepted by Send but Recv returned %v (deadline %v)", step, who, ms.n, err, hangDeadline)
	}
	if d := ms.diff(m.Body); d != "" {
		m.Free()
		return nil, fc.fail("mismatch", false, "%s: %s: %s", step, who, d)
	}
	return m, nil
}

func runFan(t *tran, fk *fanKind, nLeaves int) func(fc *fcell, fs *fanStats) *failure {
	return func(fc *fcell, fs *fanStats) *failure {
		hub, err := newNode(fk.newHub)
		if err != nil {
			return fc.fail("setup", true, "%v", err)
		}
		all := []*node{hub}
		defer func() { closeNodes(all...) }()
		var leaves []*node
		for i := 0; i < nLeaves; i++ {
			l, err := newNode(fk.newLeaf)
			if err != nil {
				return fc.fail("setup", true, "%v", err)
			}
			leaves = append(leaves, l)
			all = append(all, l)
		}
		if err := connectNodes(t, hub, leaves, false); err != nil {
			return fc.fail("setup", true, "cannot connect: %v", err)
		}
		var id uint32
		for si, n := range fanSizes {
			step := fmt.Sprintf("body length %d", n)
			// two messages in a row from the hub, every leaf receives both, in order
			pair := []mspec{{n: n, seed: fc.seed(si, 0, 0), fill: -1}, {n: n, seed: fc.seed(si, 1, 0), fill: -1}}
			for mi, ms := range pair {
				id++
				var h []byte
				if fk.hubHdr != nil {
					h = fk.hubHdr(id)
				}
				if err := hub.send(h, ms); err != nil {
					return fc.fail("send", true, "%s: hub: Send of message %d failed: %v", step, mi, err)
				}
			}
			for li, l := range leaves {
				for mi, ms := range pair {
					m, f := fc.expect(l, fmt.Sprintf("leaf %d of %d, message %d of 2 from the hub", li, nLeaves, mi+1), ms, step)
					if f != nil {
						return f
					}
					m.Free()
					atomic.AddInt64(&fs.msgs, 1)
				}
			}
			switch fk.back {
			case "reply":
				// every respondent answers the second survey with its own body; the surveyor gets each once
				want := map[int]mspec{}
				for li, l := range leaves {
					ms := mspec{n: n, seed: fc.seed(si, 2, li+1), fill: -1}
					want[li] = ms
					if err := l.send(nil, ms); err != nil {
						return fc.fail("send", true, "%s: respondent %d: Send of the answer failed: %v", step, li, err)
					}
				}
				for k := 0; k < nLeaves; k++ {
					m, err := hub.s.RecvMsg()
					if err != nil {
						return fc.fail("lost", true, "%s: surveyor: %d of %d answers received, then Recv returned %v", step, k, nLeaves, err)
					}
					hit := -1
					for li, ms := range want {
						if ms.diff(m.Body) == "" {
							hit = li
							break
						}
					}
					if hit < 0 {
						var d string
						for li := range want {
							d = want[li].diff(m.Body)
							break
						}
						m.Free()
						return fc.fail("mismatch", false, "%s: surveyor: an answer arrived that no respondent sent (or twice); compared with an outstanding one: %s", step, d)
					}
					delete(want, hit)
					m.Free()
					atomic.AddInt64(&fs.replies, 1)
				}
			case "leaf0", "leaf0-forward":
				ms := mspec{n: n, seed: fc.seed(si, 3, 0), fill: -1}
				if err := leaves[0].send(nil, ms); err != nil {
					return fc.fail("send", true, "%s: leaf 0: Send failed: %v", step, err)
				}
				m, f := fc.expect(hub, "hub, message from leaf 0", ms, step)
				if f != nil {
					return f
				}
				m.Free()
				atomic.AddInt64(&fs.msgs, 1)
				if fk.back == "leaf0-forward" {
					for li := 1; li < nLeaves; li++ {
						m, f := fc.expect(leaves[li], fmt.Sprintf("leaf %d of %d, message from leaf 0 forwarded by the hub", li, nLeaves), ms, step)
						if f != nil {
							return f
						}
						m.Free()
						atomic.AddInt64(&fs.msgs, 1)
					}
				}
			}
		}
		return nil
	}
}

// ---------------------------------------------------------------------------------
// REQ: every transmission of one request is the same

type seenReq struct {
	ms mspec
	n  int // transmissions seen
}

// reqPeer is the raw REP side: it reads requests without answering.
type reqPeer struct {
	fc   *fcell
	n    *node
	seen map[uint32]*seenReq
}

// next reads one transmission.  A request id not seen before must carry cur; a known id must
// carry exactly what its first transmission carried.
func (rp *reqPeer) next(cur mspec, step string) (m *mangos.Message, id uint32, f *failure) {
	m, err := rp.n.s.RecvMsg()
	if err != nil {
		return nil, 0, rp.fc.fail("lost", true, "%s: raw REP peer: Recv returned %v (deadline %v) while a request of %d bytes is outstanding", step, err, hangDeadline, cur.n)
	}
	if len(m.Header) != 8 || m.Header[4]&0x80 == 0 {
		h := append([]byte{}, m.Header...)
		m.Free()
		return nil, 0, rp.fc.fail("hdr", false, "%s: raw REP peer: header [% x], expected [<4 byte pipe id> <request id with the top bit set>]", step, h)
	}
	id = binary.BigEndian.Uint32(m.Header[4:])
	sr := rp.seen[id]
	if sr == nil {
		sr = &seenReq{ms: cur}
		rp.seen[id] = sr
	}
	sr.n++
	if d := sr.ms.diff(m.Body); d != "" {
		k := sr.n
		m.Free()
		return nil, 0, rp.fc.fail("mismatch", false, "%s: raw REP peer: transmission %d of request id %08x differs from the request: %s", step, k, id, d)
	}
	return m, id, nil
}

func reqSockets(t *tran, reqDials bool, retry time.Duration, fc *fcell) (rq, rp *node, f *failure) {
	rq, err := newNode(req.NewSocket)
	if err != nil {
		return nil, nil, fc.fail("setup", true, "%v", err)
	}
	rp, err = newNode(xrep.NewSocket)
	if err != nil {
		closeNodes(rq)
		return nil, nil, fc.fail("setup", true, "%v", err)
	}
	if err := rq.s.SetOption(mangos.OptionRetryTime, retry); err != nil {
		closeNodes(rq, rp)
		return nil, nil, fc.fail("setup", true, "%v", err)
	}
	lst, dl := rp, rq
	if !reqDials {
		lst, dl = rq, rp
	}
	if err := connectNodes(t, lst, []*node{dl}, true); err != nil {
		closeNodes(rq, rp)
		return nil, nil, fc.fail("setup", true, "cannot connect: %v", err)
	}
	return rq, rp, nil
}

// answer sends the reply along the header of transmission m and checks what REQ delivers.
func answer(fc *fcell, rq, rp *node, m *mangos.Message, ms mspec, step string) *failure {
	if err := rp.send(m.Header, ms); err != nil {
		return fc.fail("send", true, "%s: raw REP peer: Send of the reply failed: %v", step, err)
	}
	r, f := fc.expect(rq, "REQ, the reply", ms, step)
	if f != nil {
		return f
	}
	r.Free()
	return nil
}

// runReqRetry: retry time 100 ms, the peer reads three transmissions of each request, then answers.
func runReqRetry(t *tran, reqDials bool) func(fc *fcell, fs *fanStats) *failure {
	return func(fc *fcell, fs *fanStats) *failure {
		rq, rpn, f := reqSockets(t, reqDials, reqRetry, fc)
		if f != nil {
			return f
		}
		defer closeNodes(rq, rpn)
		rp := &reqPeer{fc: fc, n: rpn, seen: map[uint32]*seenReq{}}
		for si, n := range fanSizes {
			step := fmt.Sprintf("request body length %d", n)
			ms := mspec{n: n, seed: fc.seed(si, 0, 0), fill: -1}
			if err := rq.send(nil, ms); err != nil {
				return fc.fail("send", true, "%s: REQ: Send failed: %v", step, err)
			}
			var cur uint32
			have := false
			var last *mangos.Message
			for cnt := 0; cnt < 3; {
				m, id, f := rp.next(ms, step)
				if f != nil {
					return f
				}
				if !have && rp.seen[id].n == 1 {
					cur, have = id, true
				}
				if !have || id != cur {
					// a late retransmission of an earlier, answered request (verified above)
					m.Free()
					continue
				}
				cnt++
				if cnt > 1 {
					atomic.AddInt64(&fs.retrans, 1)
				}
				if last != nil {
					last.Free()
				}
				last = m
			}
			f := answer(fc, rq, rpn, last, mspec{n: n, seed: fc.seed(si, 1, 0), fill: -1}, step)
			last.Free()
			if f != nil {
				return f
			}
			atomic.AddInt64(&fs.replies, 1)
		}
		return nil
	}
}

// runReqReconnect: the retry time is long; the connection the request went out on is closed
// (by the peer or by the REQ side), the request is sent again on the next connection.
func runReqReconnect(t *tran, reqDials bool, dropBy string) func(fc *fcell, fs *fanStats) *failure {
	return func(fc *fcell, fs *fanStats) *failure {
		rq, rpn, f := reqSockets(t, reqDials, 10*time.Minute, fc)
		if f != nil {
			return f
		}
		defer closeNodes(rq, rpn)
		rp := &reqPeer{fc: fc, n: rpn, seen: map[uint32]*seenReq{}}
		for si, n := range fanSizes {
			step := fmt.Sprintf("request body length %d", n)
			ms := mspec{n: n, seed: fc.seed(si, 0, 0), fill: -1}
			if err := rq.send(nil, ms); err != nil {
				return fc.fail("send", true, "%s: REQ: Send failed: %v", step, err)
			}
			m1, id1, f := rp.next(ms, step)
			if f != nil {
				return f
			}
			if rp.seen[id1].n != 1 {
				m1.Free()
				return fc.fail("mismatch", false, "%s: raw REP peer: a new request arrived with the id %08x of an earlier request", step, id1)
			}
			oldPipe := append([]byte{}, m1.Header[:4]...)
			if dropBy == "peer" {
				_ = m1.Pipe.Close()
			} else if p := rq.lastPipe(); p != nil {
				_ = p.Close()
			}
			m1.Free()
			m2, id2, f := rp.next(ms, step+", after the connection was closed by the "+dropBy)
			if f != nil {
				return f
			}
			if id2 != id1 {
				m2.Free()
				return fc.fail("mismatch", false, "%s: raw REP peer: after the reconnect a request with id %08x arrived, the outstanding request has id %08x", step, id2, id1)
			}
			if !bytes.Equal(oldPipe, m2.Header[:4]) {
				atomic.AddInt64(&fs.reconn, 1) // arrived over another pipe than the first transmission
			}
			f = answer(fc, rq, rpn, m2, mspec{n: n, seed: fc.seed(si, 1, 0), fill: -1}, step)
			m2.Free()
			if f != nil {
				return f
			}
			atomic.AddInt64(&fs.replies, 1)
		}
		return nil
	}
}

// ---------------------------------------------------------------------------------
// driver

var fcellSeq int64

func fanCells() []*fcell {
	var out []*fcell
	add := func(t *tran, what, input string, keys []string, run func(fc *fcell, fs *fanStats) *failure) {
		out = append(out, &fcell{id: int(atomic.AddInt64(&fcellSeq, 1)), t: t, what: what, keys: keys,
			input: "scenario=fanout-and-retransmit transport=" + t.name + " " + input + fmt.Sprintf(" ; body lengths %v in turn, content pat(seed,i)", fanSizes), run: run})
	}
	for _, t := range trans {
		for _, fk := range fanKinds {
			for _, nl := range fk.leaves {
				var keys []string
				for _, n := range fanSizes {
					keys = append(keys, fmt.Sprintf("%s/fan-%s/%d-receivers/len%d", t.name, fk.name, nl, n))
				}
				in := fmt.Sprintf("pattern=%s: the hub socket listens, %d peer socket(s) dial it; for each body length the hub sends two messages in a row and every peer receives both", fk.name, nl)
				switch fk.back {
				case "reply":
					in += "; then every respondent answers with its own body and the surveyor receives each answer once"
				case "leaf0":
					in += "; then peer 0 sends one message and the hub receives it"
				case "leaf0-forward":
					in += "; then peer 0 sends one message, the hub and every other peer receive it"
				}
				add(t, fmt.Sprintf("%s-x%d", fk.name, nl), in, keys, runFan(t, fk, nl))
			}
		}
		for _, reqDials := range []bool{true, false} {
			role := "REQ dials, the raw REP (xrep) peer listens"
			rk := "req-dials"
			if !reqDials {
				role = "REQ listens, the raw REP (xrep) peer dials"
				rk = "req-listens"
			}
			var keys []string
			for _, n := range fanSizes {
				keys = append(keys, fmt.Sprintf("%s/req-retry/%s/len%d", t.name, rk, n))
			}
			add(t, "req-retry-"+rk, fmt.Sprintf("pattern=req with OptionRetryTime %v; %s and reads three transmissions of each request before it answers; the reply must be delivered", reqRetry, role), keys, runReqRetry(t, reqDials))
			for _, by := range []string{"peer", "REQ side"} {
				var keys []string
				for _, n := range fanSizes {
					keys = append(keys, fmt.Sprintf("%s/req-reconnect/%s/dropped-by-%s/len%d", t.name, rk, by, n))
				}
				add(t, "req-reconnect-"+rk+"-dropped-by-"+strings.ReplaceAll(by, " ", "-"), fmt.Sprintf("pattern=req with OptionRetryTime 10m, OptionReconnectTime 10ms; %s; after the first transmission of each request the %s closes the pipe (Pipe.Close); the request must arrive again, unchanged, and the reply must be delivered", role, by), keys, runReqReconnect(t, reqDials, by))
			}
		}
	}
	return out
}

func scenFanout(st *ekit.Stats, tier string) {
	st.Note = fmt.Sprintf("6 transports x (fan-out: survey, star, pubsub, bus with 2 and 3 receivers, raw hubs xsurveyor/xstar/xpub/xbus, pair1) + (REQ retransmission after %v x3, after a dropped connection) x body lengths %v", reqRetry, fanSizes)
	cells := fanCells()
	var fs fanStats
	sem := make(chan struct{}, parallelCells)
	var wg sync.WaitGroup
	for _, fc := range cells {
		if st.OutOfTime() {
			st.Cap("wall clock budget exhausted before all cells ran")
			break
		}
		sem <- struct{}{}
		wg.Add(1)
		go func(fc *fcell) {
			defer wg.Done()
			defer func() { <-sem }()
			executeFan(st, fc, &fs)
		}(fc)
	}
	wg.Wait()
	add := func(name string, n int64) {
		for i := int64(0); i < n; i++ {
			st.Count(name)
		}
	}
	add("fanout-msgs-verified", fs.msgs)
	add("req-retransmissions-after-retry-time-verified", fs.retrans)
	add("req-retransmissions-after-reconnect-verified", fs.reconn)
	add("replies-verified", fs.replies)
	st.Sample(map[string]string{"case": cells[0].input})
	st.Sample(map[string]string{"case": cells[len(cells)-1].input})
}

func executeFan(st *ekit.Stats, fc *fcell, fs *fanStats) {
	var f *failure
	for try := 0; try < 3; try++ {
		if f = fc.run(fc, fs); f == nil || f.kind != "setup" {
			break
		}
	}
	st.Count("cells")
	for range fanSizes {
		st.Case(6)
	}
	if f == nil {
		for _, k := range fc.keys {
			st.Nontrivial(k)
		}
		return
	}
	if f.kind == "setup" {
		st.Count("setup-failed")
		st.Cap(fmt.Sprintf("cell %s/%s: %s", fc.t.name, fc.what, f.msg))
		return
	}
	var repro int32
	var rwg sync.WaitGroup
	for i := 0; i < 3; i++ {
		rwg.Add(1)
		go func() {
			defer rwg.Done()
			var dummy fanStats
			if g := fc.run(fc, &dummy); g != nil && g.kind == f.kind {
				atomic.AddInt32(&repro, 1)
			}
		}()
	}
	rwg.Wait()
	sig := fmt.Sprintf("fanout-%s:%s:%s", f.kind, fc.t.name, fc.what)
	vk := "fail"
	if f.timeout {
		vk = "hang"
	}
	switch {
	case repro > 0:
		st.Fail(sig, vk, f.input, "%s [reproduced %d/3 on fresh sockets]", f.msg, repro)
	case !f.timeout:
		st.Fail(sig+":unreproduced", vk, f.input, "%s [seen once, reproduced 0/3 on fresh sockets]", f.msg)
	default:
		st.Count("timeout-not-reproduced")
		st.Sample(map[string]string{"unreproduced": f.msg, "input": f.input})
	}
}

func init() {
	// (C06 / C07 / C08: every subscriber / respondent / member over every real transport gets what was sent)
	for _, prop := range []string{"C01", "C17", "C06", "C07", "C08"} {
		ekit.Register(prop, ekit.Scenario{Name: "fanout-and-retransmit", Run: scenFanout})
	}
}
