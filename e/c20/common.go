// Package c20 is the engine E harness for property C20: "macat prints and sends
// exactly what crossed the socket".  It drives the BUILT macat binary as a subprocess
// and talks to it through real mangos sockets (ipc, a little tcp) in the harness.
//
// Oracle discipline: there is no short wall clock oracle.  Absence of a record is
// decided by a sentinel message that must arrive behind it; watchdogs are 30 s and only
// turn "hangs forever" into a verdict; duration checks assert LOWER bounds only; every
// failing case is re-run 3 times in fresh processes and reported only if it fails
// every time (otherwise it is counted as "unconfirmed-flaky").
package c20

import (
	"bytes"
	"fmt"
	"os"
	"os/exec"
	"path/filepath"
	"strings"
	"sync"
	"sync/atomic"
	"time"

	"go.nanomsg.org/mangos/v3"
	"go.nanomsg.org/mangos/v3/ve/ekit"

	// harness side transports
	_ "go.nanomsg.org/mangos/v3/transport/ipc"
	_ "go.nanomsg.org/mangos/v3/transport/tcp"
)

const watchdog = 30 * time.Second

var seq int64

// macatPath finds the macat binary that build_e.sh put next to ve.bin.
func macatPath() string {
	exe, err := os.Executable()
	if err != nil {
		exe = os.Args[0]
	}
	return filepath.Join(filepath.Dir(exe), "macat.bin")
}

var tmpOnce sync.Once
var tmpDir string

// sockPath returns a fresh short path for a unix socket / temp file.
func sockPath(tag string) string {
	tmpOnce.Do(func() {
		tmpDir = ekit.Tmp
		if len(tmpDir) > 60 { // sun_path is 108 bytes
			d, err := os.MkdirTemp("", "c20")
			if err == nil {
				tmpDir = d
			}
		}
		_ = os.MkdirAll(tmpDir, 0o755)
	})
	return filepath.Join(tmpDir, fmt.Sprintf("c20-%d-%s-%d", os.Getpid(), tag, atomic.AddInt64(&seq, 1)))
}

// proc is one macat subprocess.
type proc struct {
	cmd    *exec.Cmd
	args   []string
	out    *os.File // read end of stdout
	errBuf bytes.Buffer
	t0, t1 time.Time
	done   chan struct{}
}

func startMacat(args ...string) (*proc, error) { return startMacatIn(nil, args...) }

// startMacatIn starts macat with the given standard input (nil = /dev/null).
func startMacatIn(stdin *os.File, args ...string) (*proc, error) {
	r, w, err := os.Pipe()
	if err != nil {
		return nil, err
	}
	p := &proc{args: args, out: r, done: make(chan struct{})}
	p.cmd = exec.Command(macatPath(), args...)
	p.cmd.Stdout = w
	p.cmd.Stderr = &p.errBuf
	if stdin != nil {
		p.cmd.Stdin = stdin
	}
	p.t0 = time.Now()
	if err := p.cmd.Start(); err != nil {
		_ = r.Close()
		_ = w.Close()
		return nil, err
	}
	_ = w.Close()
	go func() {
		_ = p.cmd.Wait()
		p.t1 = time.Now()
		close(p.done)
	}()
	return p, nil
}

// waitExit waits for the process to end; false means the watchdog expired.
func (p *proc) waitExit(d time.Duration) bool {
	select {
	case <-p.done:
		return true
	case <-time.After(d):
		return false
	}
}

func (p *proc) kill() {
	_ = p.cmd.Process.Kill()
	<-p.done
}

func (p *proc) exitCode() int { return p.cmd.ProcessState.ExitCode() }

// stderrText is only valid after the process ended.
func (p *proc) stderrText() string {
	s := strings.TrimSpace(p.errBuf.String())
	if i := strings.Index(s, "\n"); i >= 0 {
		s = s[:i] + " ..."
	}
	if len(s) > 200 {
		s = s[:200]
	}
	return s
}

// peer is the harness side mangos socket.
type peer struct {
	sock   mangos.Socket
	attach chan struct{}
	detach chan struct{}
	tAtt   atomic.Int64 // unix nanos of the last attach / detach (diagnostics only)
	tDet   atomic.Int64
}

func newPeer(ctor func() (mangos.Socket, error)) (*peer, error) {
	s, err := ctor()
	if err != nil {
		return nil, err
	}
	pe := &peer{sock: s, attach: make(chan struct{}, 64), detach: make(chan struct{}, 64)}
	s.SetPipeEventHook(func(ev mangos.PipeEvent, _ mangos.Pipe) {
		switch ev {
		case mangos.PipeEventAttached:
			pe.tAtt.Store(time.Now().UnixNano())
			select {
			case pe.attach <- struct{}{}:
			default:
			}
		case mangos.PipeEventDetached:
			pe.tDet.Store(time.Now().UnixNano())
			select {
			case pe.detach <- struct{}{}:
			default:
			}
		}
	})
	// hang watchdogs: a harness call never blocks for ever
	_ = s.SetOption(mangos.OptionRecvDeadline, watchdog)
	_ = s.SetOption(mangos.OptionSendDeadline, watchdog)
	return pe, nil
}

func (pe *peer) waitAttach(d time.Duration) bool {
	select {
	case <-pe.attach:
		return true
	case <-time.After(d):
		return false
	}
}

func (pe *peer) waitDetach(d time.Duration) bool {
	select {
	case <-pe.detach:
		return true
	case <-time.After(d):
		return false
	}
}

// dialRetry makes the harness socket dial in the background until the peer listens.
func (pe *peer) dialRetry(addr string) error {
	return pe.sock.DialOptions(addr, map[string]interface{}{
		mangos.OptionDialAsynch:       true,
		mangos.OptionReconnectTime:    10 * time.Millisecond,
		mangos.OptionMaxReconnectTime: 50 * time.Millisecond,
	})
}

// runJobs runs the jobs on n workers.
func runJobs(n int, jobs []func()) {
	ch := make(chan func())
	var wg sync.WaitGroup
	for i := 0; i < n; i++ {
		wg.Add(1)
		go func() {
			defer wg.Done()
			for j := range ch {
				j()
			}
		}()
	}
	for _, j := range jobs {
		ch <- j
	}
	close(ch)
	wg.Wait()
}

// notes collects things worth telling the reader of the evidence file.
type notes struct {
	mu sync.Mutex
	m  map[string]int
}

func (n *notes) add(s string) {
	n.mu.Lock()
	if n.m == nil {
		n.m = map[string]int{}
	}
	n.m[s]++
	n.mu.Unlock()
}

func shq(args []string) string {
	var b strings.Builder
	for i, a := range args {
		if i > 0 {
			b.WriteByte(' ')
		}
		if a != "" && strings.IndexFunc(a, func(r rune) bool {
			return !(r >= 'a' && r <= 'z' || r >= 'A' && r <= 'Z' || r >= '0' && r <= '9' || strings.ContainsRune("-_=/:.+,", r))
		}) < 0 {
			b.WriteString(a)
			continue
		}
		b.WriteString("$'")
		for _, c := range []byte(a) {
			if c >= 0x20 && c < 0x7f && c != '\'' && c != '\\' {
				b.WriteByte(c)
			} else {
				fmt.Fprintf(&b, "\\x%02x", c)
			}
		}
		b.WriteString("'")
	}
	return b.String()
}
