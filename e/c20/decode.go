package c20

// Independent decoders / oracles for the macat output formats.  Nothing in this file
// calls macat code: the formats are re-derived from the documentation (macat.txt,
// nanocat(1), msgpack.org) and the property text.

import (
	"bufio"
	"bytes"
	"encoding/binary"
	"encoding/hex"
	"fmt"
	"io"
)

// record is one output record as cut out of macat's stdout by the stream reader.
type record struct {
	data []byte // ascii/quoted: the line without '\n'; msgpack: the payload; raw: bytes before the sentinel
	tag  byte   // msgpack only
	n    uint64 // msgpack only: value of the length field
	err  error  // io.EOF etc: the stream ended; data = bytes of an incomplete record
}

// readRecords cuts stdout into records.  raw output has no delimiters, so for raw the
// stream is cut after every occurrence of the sentinel (every case sends body, sentinel).
func readRecords(format string, r io.Reader, sentinel []byte, out chan<- record) {
	br := bufio.NewReaderSize(r, 1<<16)
	defer close(out)
	for {
		switch format {
		case "ascii", "quoted":
			line, err := br.ReadBytes('\n')
			if err != nil {
				out <- record{data: line, err: err}
				return
			}
			out <- record{data: line[:len(line)-1]}
		case "msgpack":
			tag, err := br.ReadByte()
			if err != nil {
				out <- record{err: err}
				return
			}
			var lf int
			switch tag {
			case 0xc4:
				lf = 1
			case 0xc5:
				lf = 2
			case 0xc6:
				lf = 4
			default:
				// not a bin object: report and stop interpreting the stream
				rest, _ := br.Peek(br.Buffered())
				out <- record{tag: tag, data: append([]byte{tag}, rest...), err: fmt.Errorf("not a msgpack bin tag: 0x%02x", tag)}
				return
			}
			lb := make([]byte, 4)
			if _, err := io.ReadFull(br, lb[4-lf:]); err != nil {
				out <- record{tag: tag, data: lb, err: err}
				return
			}
			n := uint64(binary.BigEndian.Uint32(lb))
			if n > 1<<24 {
				out <- record{tag: tag, n: n, err: fmt.Errorf("msgpack length field %d implausible", n)}
				return
			}
			pl := make([]byte, n)
			if k, err := io.ReadFull(br, pl); err != nil {
				out <- record{tag: tag, n: n, data: pl[:k], err: err}
				return
			}
			out <- record{tag: tag, n: n, data: pl}
		default: // raw, no: cut after each sentinel
			var buf []byte
			for {
				c, err := br.ReadByte()
				if err != nil {
					out <- record{data: buf, err: err}
					return
				}
				buf = append(buf, c)
				if c == sentinel[len(sentinel)-1] && bytes.HasSuffix(buf, sentinel) {
					out <- record{data: buf[:len(buf)-len(sentinel)]}
					break
				}
			}
		}
	}
}

// checkRecord decides whether rec is a faithful rendering of body in the given format.
// class is "" when it is; otherwise a short stable class name plus a message.
// notes are names of observations that are not violations (counted only).
func checkRecord(format string, body []byte, rec record) (class, msg string, notes []string) {
	switch format {
	case "raw":
		if !bytes.Equal(rec.data, body) {
			return "raw-bytes-differ", fmt.Sprintf("raw output %s differs from body %s", show(rec.data), show(body)), nil
		}
	case "ascii":
		if len(rec.data) != len(body) {
			return "ascii-length", fmt.Sprintf("ascii line has %d bytes for a %d byte body: line %s body %s", len(rec.data), len(body), show(rec.data), show(body)), nil
		}
		for i, b := range body {
			g := rec.data[i]
			switch {
			case b >= 0x20 && b <= 0x7e:
				if g != b {
					return "ascii-printable-changed", fmt.Sprintf("printable byte 0x%02x at %d printed as 0x%02x", b, i, g), nil
				}
			case b < 0x80:
				if g != '.' {
					return "ascii-nonprintable-not-dot", fmt.Sprintf("non-printable byte 0x%02x at %d printed as 0x%02x, want '.'", b, i, g), nil
				}
			default:
				// bytes >= 0x80 are not ASCII; the oracle accepts '.' or the byte itself
				// (macat passes Latin-1 "printable" bytes 0xa1..0xff through)
				if g == b {
					notes = append(notes, "ascii-highbyte-passed-through")
				} else if g != '.' {
					return "ascii-highbyte-changed", fmt.Sprintf("byte 0x%02x at %d printed as 0x%02x, want '.' or itself", b, i, g), nil
				}
			}
		}
	case "quoted":
		dec, rawctl, err := decodeQuoted(rec.data)
		if err != nil {
			return "quoted-undecodable", fmt.Sprintf("quoted line %s does not decode: %v (body %s)", show(rec.data), err, show(body)), nil
		}
		if !bytes.Equal(dec, body) {
			return "quoted-roundtrip", fmt.Sprintf("quoted line %s decodes to %s, body was %s", show(rec.data), show(dec), show(body)), nil
		}
		if rawctl {
			notes = append(notes, "quoted-raw-control-byte")
		}
	case "msgpack":
		if rec.n != uint64(len(body)) {
			return "msgpack-length-field", fmt.Sprintf("bin tag 0x%02x length field %d, body length %d", rec.tag, rec.n, len(body)), nil
		}
		if !bytes.Equal(rec.data, body) {
			return "msgpack-payload", fmt.Sprintf("msgpack payload %s differs from body %s", show(rec.data), show(body)), nil
		}
		want := byte(0xc6)
		if len(body) < 1<<8 {
			want = 0xc4
		} else if len(body) < 1<<16 {
			want = 0xc5
		}
		if rec.tag != want {
			notes = append(notes, "msgpack-nonminimal-bin")
		}
	}
	return "", "", notes
}

// decodeQuoted decodes one line of the quoted format: C style escapes
// \n \r \t \\ \" \' \xHH; optional surrounding double quotes; an unescaped double
// quote inside is an error.  rawctl reports raw control bytes (allowed, they decode to
// themselves, but noted).
func decodeQuoted(line []byte) (out []byte, rawctl bool, err error) {
	if len(line) >= 2 && line[0] == '"' && line[len(line)-1] == '"' {
		// trailing quote is a delimiter only if it is not escaped
		bs := 0
		for i := len(line) - 2; i >= 1 && line[i] == '\\'; i-- {
			bs++
		}
		if bs%2 == 0 {
			line = line[1 : len(line)-1]
		}
	}
	out = make([]byte, 0, len(line))
	for i := 0; i < len(line); i++ {
		c := line[i]
		switch {
		case c == '"':
			return nil, false, fmt.Errorf("unescaped double quote at %d", i)
		case c == '\n':
			return nil, false, fmt.Errorf("raw newline at %d", i)
		case c == '\\':
			if i+1 >= len(line) {
				return nil, false, fmt.Errorf("dangling backslash at %d", i)
			}
			i++
			switch line[i] {
			case 'n':
				out = append(out, '\n')
			case 'r':
				out = append(out, '\r')
			case 't':
				out = append(out, '\t')
			case '\\':
				out = append(out, '\\')
			case '"':
				out = append(out, '"')
			case '\'':
				out = append(out, '\'')
			case 'x':
				if i+2 >= len(line) {
					return nil, false, fmt.Errorf("short \\x escape at %d", i-1)
				}
				var b [1]byte
				if _, e := hex.Decode(b[:], line[i+1:i+3]); e != nil {
					return nil, false, fmt.Errorf("bad \\x escape at %d", i-1)
				}
				out = append(out, b[0])
				i += 2
			default:
				return nil, false, fmt.Errorf("unknown escape \\%c at %d", line[i], i-1)
			}
		default:
			if c < 0x20 || c == 0x7f {
				rawctl = true
			}
			out = append(out, c)
		}
	}
	return out, rawctl, nil
}

// show renders bytes for messages: hex, shortened in the middle for long values.
func show(b []byte) string {
	if len(b) <= 48 {
		return fmt.Sprintf("[%d]%x", len(b), b)
	}
	return fmt.Sprintf("[%d]%x..%x", len(b), b[:24], b[len(b)-16:])
}
