package c20

// Scenario tx-replies: macat in its ANSWERING roles (--rep, --respondent) "sends exactly the
// bytes given by --data or --file, the number of times requested" - here: once for every
// request / survey that reaches it.  One macat process per case; the harness peer (a REQ resp.
// SURVEYOR socket) asks three times, one after the other, and every question must be answered
// with exactly the payload bytes.  An explicitly EMPTY payload (--data "", --data=, -D "", --file
// naming a zero-length file) is a payload: the answer is a message of length zero.
//
// Without --data / --file macat only prints: the peer gets no answer.  Absence is decided as in
// rx.go (unsolicited): after macat has printed the record of the request (so it has handled it)
// the peer looks into its queue for 300 ms.  That bounded wait can only MISS a late answer, it can
// never raise a false alarm.  The 10 s wait for an answer is a watchdog only.

import (
	"bytes"
	"fmt"
	"os"
	"time"

	"go.nanomsg.org/mangos/v3"
	"go.nanomsg.org/mangos/v3/protocol/req"
	"go.nanomsg.org/mangos/v3/protocol/surveyor"
	"go.nanomsg.org/mangos/v3/ve/ekit"
)

const (
	replyWatchdog = 10 * time.Second
	replyQuiet    = 300 * time.Millisecond
	replyAsks     = 3
)

type replyRole struct {
	name  string
	proto string
	peer  func() (mangos.Socket, error)
}

// surveyorPatient: a survey stays open longer than the watchdog, so "no answer" is a receive
// timeout and not the end of the survey.
func surveyorPatient() (mangos.Socket, error) {
	s, err := surveyor.NewSocket()
	if err == nil {
		err = s.SetOption(mangos.OptionSurveyTime, 6*replyWatchdog)
	}
	return s, err
}

var replyRoles = []replyRole{
	{"rep", "--rep", req.NewSocket},
	{"respondent", "--respondent", surveyorPatient},
}

type replyCase struct {
	role replyRole
	src  string // data-sep data-eq D-sep file-sep ; "" = neither --data nor --file
	data []byte
	bind bool // macat --bind (the harness dials) instead of --connect
}

func (c replyCase) addrName() string {
	if c.bind {
		return "--bind"
	}
	return "--connect"
}

type replyResult struct {
	class, kind, msg string
	args             []string
	answers          int
}

func runReply(c replyCase) (res replyResult) {
	bad := func(class, kind, format string, a ...interface{}) replyResult {
		res.class, res.kind, res.msg = class, kind, fmt.Sprintf(format, a...)
		return res
	}
	pe, err := newPeer(c.role.peer)
	if err != nil {
		return bad("harness", "fail", "harness setup: %v", err)
	}
	defer pe.sock.Close()
	_ = pe.sock.SetOption(mangos.OptionRecvDeadline, replyWatchdog)
	full := "ipc://" + sockPath("rp")
	args := []string{c.role.proto}
	if c.bind {
		if err := pe.dialRetry(full); err != nil {
			return bad("harness", "fail", "harness dial: %v", err)
		}
		args = append(args, "--bind", full)
	} else {
		if err := pe.sock.Listen(full); err != nil {
			return bad("harness", "fail", "harness listen: %v", err)
		}
		args = append(args, "--connect", full)
	}
	switch c.src {
	case "data-sep":
		args = append(args, "--data", string(c.data))
	case "data-eq":
		args = append(args, "--data="+string(c.data))
	case "D-sep":
		args = append(args, "-D", string(c.data))
	case "file-sep":
		f := sockPath("file")
		if err := os.WriteFile(f, c.data, 0o644); err != nil {
			return bad("harness", "fail", "harness setup: %v", err)
		}
		defer os.Remove(f)
		args = append(args, "--file", f)
	default:
		args = append(args, "--ascii") // the printed record tells the harness that macat has handled the request
	}
	res.args = args
	p, err := startMacat(args...)
	if err != nil {
		return bad("harness", "fail", "harness setup: %v", err)
	}
	var recs chan record
	if c.src == "" {
		recs = make(chan record, 16)
		go readRecords("ascii", p.out, sentinel, recs)
	}
	defer func() {
		p.kill()
		if recs != nil {
			for range recs {
			}
		}
		_ = p.out.Close()
	}()
	state := func() string {
		select {
		case <-p.done:
			return fmt.Sprintf("macat has exited with status %d, stderr: %s", p.exitCode(), p.stderrText())
		default:
			return "macat is still running"
		}
	}
	if !pe.waitAttach(watchdog) {
		return bad("no-connection", "hang", "no connection between macat and the harness peer within %v (%s)", watchdog, state())
	}
	for i := 1; i <= replyAsks; i++ {
		ask := []byte(fmt.Sprintf("ask-%d", i))
		if err := pe.sock.Send(ask); err != nil {
			return bad("harness", "fail", "harness send of request %d: %v", i, err)
		}
		if c.src == "" {
			select {
			case r, ok := <-recs:
				if !ok || r.err != nil || !bytes.Equal(r.data, ask) {
					return bad("not-printed", "fail", "request %d %s: the next thing macat printed is %s (stream error %v; %s)", i, show(ask), show(r.data), r.err, state())
				}
			case <-time.After(replyWatchdog):
				return bad("not-printed", "hang", "request %d %s was not printed within %v (%s)", i, show(ask), replyWatchdog, state())
			}
			_ = pe.sock.SetOption(mangos.OptionRecvDeadline, replyQuiet)
			if b, err := pe.sock.Recv(); err == nil {
				return bad("answered-without-data", "fail", "macat was given no --data / --file, yet request %d was answered with %s", i, show(b))
			}
			continue
		}
		b, err := pe.sock.Recv()
		if err != nil {
			return bad("no-answer", "hang", "request %d of %d: no answer within %v (%v); %d answered before; the payload given was %s; %s", i, replyAsks, replyWatchdog, err, res.answers, show(c.data), state())
		}
		if !bytes.Equal(b, c.data) {
			return bad("bytes", "fail", "request %d of %d was answered with %s, the payload given was %s", i, replyAsks, show(b), show(c.data))
		}
		res.answers++
	}
	if c.src != "" {
		// nothing else arrives (a REQ socket without an open request refuses to receive at once; a
		// survey is still open and would deliver a second response)
		_ = pe.sock.SetOption(mangos.OptionRecvDeadline, replyQuiet)
		if b, err := pe.sock.Recv(); err == nil {
			return bad("extra-answer", "fail", "after the %d answers one more message arrived: %s", replyAsks, show(b))
		}
	}
	return res
}

func replyJob(st *ekit.Stats, c replyCase, nt *notes) func() {
	return func() {
		if st.OutOfTime() {
			st.Cap("time budget exhausted")
			return
		}
		r := runReply(c)
		st.Case(replyAsks)
		if r.class == "" {
			if c.src == "" {
				st.Nontrivial(fmt.Sprintf("%s:no-data:%s", c.role.name, c.addrName()))
				st.Count("no-data-request-printed-not-answered")
				return
			}
			st.Nontrivial(fmt.Sprintf("%s:%s:len=%d:%s", c.role.name, c.src, len(c.data), c.addrName()))
			st.Count("requests-answered-with-the-payload")
			if len(c.data) == 0 {
				st.Count("empty-payload-answered-with-empty-message")
			}
			return
		}
		fails := 0
		for i := 0; i < 3; i++ {
			if r2 := runReply(c); r2.class != "" {
				fails++
			}
		}
		if fails < 3 {
			st.Count("unconfirmed-flaky")
			nt.add(fmt.Sprintf("unconfirmed (failed %d/3 re-runs): macat %s: %s", fails, shq(r.args), r.msg))
			return
		}
		src := "none"
		if c.src != "" {
			src = srcKind(c.src)
		}
		sig := fmt.Sprintf("tx-replies:%s:%s:%s:%s", r.class, c.role.name, src, bodyKey(c.data))
		input := fmt.Sprintf("macat %s ; peer: harness %s socket, sends %d requests 'ask-<i>' one after the other and waits for each answer", shq(r.args), map[string]string{"rep": "REQ", "respondent": "SURVEYOR"}[c.role.name], replyAsks)
		if c.src == "file-sep" {
			input += fmt.Sprintf(" ; regular file of %d bytes, content hex %x", len(c.data), clip(c.data))
		}
		st.Fail(sig, r.kind, input, "role %s, %s: %s", c.role.name, c.addrName(), r.msg)
	}
}

func init() {
	ekit.Register("C20", ekit.Scenario{Name: "tx-replies", Run: scenTxReplies})
}

func scenTxReplies(st *ekit.Stats, tier string) {
	var nt notes
	var jobs []func()
	for _, role := range replyRoles {
		for _, bind := range []bool{true, false} {
			for _, src := range []string{"data-sep", "data-eq", "D-sep", "file-sep"} {
				big := dataFill(300) // argv can not hold a NUL; newline (and every other byte value but 0) is in
				if src == "file-sep" {
					big = fillMixed(300) // NUL, newline, every byte value
				}
				for _, d := range [][]byte{{}, []byte("x"), big} {
					jobs = append(jobs, replyJob(st, replyCase{role: role, src: src, data: d, bind: bind}, &nt))
				}
			}
			jobs = append(jobs, replyJob(st, replyCase{role: role, bind: bind}, &nt))
		}
	}
	st.Sample(map[string]interface{}{"role": "rep", "args": "--rep --bind ipc://... --data ''", "peer": "REQ, 3 requests", "expect": "3 answers of length 0"})
	st.Sample(map[string]interface{}{"role": "respondent", "args": "--respondent --connect ipc://... --file <300 bytes, byte(i*7+i/256)>", "peer": "SURVEYOR, 3 surveys", "expect": "every survey gets exactly one response: those 300 bytes"})
	st.Sample(map[string]interface{}{"role": "rep", "args": "--rep --connect ipc://... --ascii", "peer": "REQ, 3 requests", "expect": "each request printed, none answered (peer's queue empty 300 ms after the record)"})
	runJobs(len(jobs)/2, jobs)
	finishNotes(st, &nt, fmt.Sprintf("--rep / --respondent x --data (separate, =), -D, --file x payload of length 0, 1, 300 x --bind / --connect: %d requests, each answered with exactly the payload within a %v watchdog; a second answer to a request is visible on the SURVEYOR peer only (a REQ socket drops it); without --data / --file: request printed, no answer within %v after the record (bounded wait, can only miss)", replyAsks, replyWatchdog, replyQuiet))
}
