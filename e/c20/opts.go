package c20

// Scenario opt-reject-grid: conflicting / missing option combinations exit non-zero
// without running.  "Without running" is observed with a plain unix (or tcp) listener
// behind the --connect address: a macat that runs must connect to it before it can do
// anything else, and the connection is in the accept queue before macat can exit.
//
// Scenario opt-durations-seconds: bare integer durations are seconds (lower bound on the
// process life time only).

import (
	"crypto/ecdsa"
	"crypto/elliptic"
	crand "crypto/rand"
	"crypto/x509"
	"crypto/x509/pkix"
	"encoding/pem"
	"fmt"
	"math/big"
	"net"
	"os"
	"strconv"
	"strings"
	"sync/atomic"
	"time"

	"go.nanomsg.org/mangos/v3/protocol/pull"
	"go.nanomsg.org/mangos/v3/protocol/push"
	"go.nanomsg.org/mangos/v3/protocol/rep"
	"go.nanomsg.org/mangos/v3/protocol/respondent"
	"go.nanomsg.org/mangos/v3/ve/ekit"
)

var protocols = []string{"push", "pull", "pub", "sub", "req", "rep", "surveyor", "respondent", "bus", "pair", "star"}

var formatSpellings = [][]string{
	{"--raw"}, {"--ascii"}, {"-A"}, {"--quoted"}, {"-Q"}, {"--msgpack"},
	{"--format", "raw"}, {"--format=ascii"}, {"--format", "quoted"}, {"--format=msgpack"}, {"--format", "no"},
}

// tap is a plain stream listener that only records whether anybody connected.
type tap struct {
	l    net.Listener
	url  string // mangos url
	path string // ipc path or tcp port
	hits int32
	done chan struct{}
}

func newTap(network string) (*tap, error) {
	t := &tap{done: make(chan struct{})}
	var err error
	if network == "unix" {
		t.path = sockPath("tap")
		t.l, err = net.Listen("unix", t.path)
		t.url = "ipc://" + t.path
	} else {
		t.l, err = net.Listen("tcp", "127.0.0.1:0")
		if err == nil {
			t.path = fmt.Sprint(t.l.Addr().(*net.TCPAddr).Port)
			t.url = "tcp://127.0.0.1:" + t.path
		}
	}
	if err != nil {
		return nil, err
	}
	go func() {
		defer close(t.done)
		for {
			c, err := t.l.Accept()
			if err != nil {
				return
			}
			atomic.AddInt32(&t.hits, 1)
			_ = c.Close()
		}
	}()
	return t, nil
}

// connected drains the accept queue (anything macat connected before it exited is in
// it already) and says whether there was a connection.
func (t *tap) connected() bool {
	type deadliner interface{ SetDeadline(time.Time) error }
	_ = t.l.(deadliner).SetDeadline(time.Now().Add(30 * time.Millisecond))
	<-t.done
	_ = t.l.Close()
	return atomic.LoadInt32(&t.hits) > 0
}

type optCase struct {
	name    string
	args    []string // "@A" is replaced by the tap url, "@P" by its path/port
	net     string   // "unix" (default) or "tcp"
	noAddr  bool     // the case has no address at all: only the exit status is decidable
	strict  bool     // in the property text (conflicting/missing): violation if accepted
	control bool     // valid invocation: must connect
}

func runOpt(c optCase) (exit int, connected, hung bool, stdout int, stderr string, args []string, herr string) {
	netw := c.net
	if netw == "" {
		netw = "unix"
	}
	t, err := newTap(netw)
	if err != nil {
		return 0, false, false, 0, "", nil, err.Error()
	}
	for _, a := range c.args {
		a = strings.ReplaceAll(a, "@A", t.url)
		a = strings.ReplaceAll(a, "@P", t.path)
		args = append(args, a)
	}
	p, err := startMacat(args...)
	if err != nil {
		t.connected()
		return 0, false, false, 0, "", args, err.Error()
	}
	outc := make(chan int, 1)
	go func() {
		n := 0
		buf := make([]byte, 4096)
		for {
			k, err := p.out.Read(buf)
			n += k
			if err != nil {
				outc <- n
				return
			}
		}
	}()
	if !p.waitExit(watchdog) {
		hung = true
		p.kill()
	}
	stdout = <-outc
	_ = p.out.Close()
	connected = t.connected()
	return p.exitCode(), connected, hung, stdout, p.stderrText(), args, ""
}

func init() {
	ekit.Register("C20", ekit.Scenario{Name: "opt-reject-grid", Run: scenOptGrid})
	ekit.Register("C20", ekit.Scenario{Name: "opt-durations-seconds", Run: scenDurations})
}

func scenOptGrid(st *ekit.Stats, tier string) {
	var nt notes
	existing := sockPath("datafile")
	_ = os.WriteFile(existing, []byte("filedata"), 0o644)
	defer os.Remove(existing)
	missing := sockPath("nonexistent")
	tmo := []string{"--recv-timeout", "1", "--send-timeout", "1"}

	var cases []optCase
	add := func(strict bool, name string, args ...string) {
		cases = append(cases, optCase{name: name, args: args, strict: strict})
	}
	// controls: a valid invocation must reach the tap
	for _, p := range protocols {
		cases = append(cases, optCase{name: "control:" + p, args: []string{"--" + p, "--connect", "@A", "--data", "x"}, control: true})
	}
	cases = append(cases, optCase{name: "control:tcp", args: []string{"--pull", "--connect-local", "@P"}, net: "tcp", control: true})
	cases = append(cases, optCase{name: "control:tls-insecure", args: []string{"--pull", "--connect", "tls+@A", "--insecure"}, net: "tcp", control: true})
	// several addresses of different kinds in one invocation: what one address needs (a TLS
	// configuration) is no business of the next
	if pemFile, err := selfSignedPEM(); err == nil {
		defer os.Remove(pemFile)
		second := sockPath("second-bind")
		defer os.Remove(second)
		cases = append(cases,
			optCase{name: "control:bind-tls-then-connect-ipc", args: []string{"--pull", "--bind", "tls+tcp://127.0.0.1:0", "--cert", pemFile, "--connect", "@A"}, control: true},
			optCase{name: "control:bind-wss-then-connect-tcp", args: []string{"--pull", "--bind", "wss://127.0.0.1:0/x", "--cert", pemFile, "--connect-local", "@P"}, net: "tcp", control: true},
			optCase{name: "control:bind-tls-bind-ipc-connect-ipc", args: []string{"--pull", "--bind", "tls+tcp://127.0.0.1:0", "--cert", pemFile, "--bind", "ipc://" + second, "--connect", "@A"}, control: true},
			optCase{name: "control:bind-ipc-bind-tls-connect-tcp", args: []string{"--sub", "--bind", "ipc://" + second + "2", "--bind", "tls+tcp://127.0.0.1:0", "-E", pemFile, "--connect-local", "@P"}, net: "tcp", control: true},
		)
	} else {
		nt.add("no self-signed certificate could be made: " + err.Error())
	}

	// no protocol
	add(true, "no-protocol:connect", "--connect", "@A", "--data", "x")
	add(true, "no-protocol:connect-ipc", "-x", "@P", "--data", "x", "--ascii")
	add(true, "no-protocol:only-format", "--raw", "--connect", "@A")
	// two protocols (every ordered pair, also the same one twice)
	for _, a := range protocols {
		for _, b := range protocols {
			add(true, "two-protocols:"+a+"+"+b, "--"+a, "--"+b, "--connect", "@A", "--data", "x")
		}
	}
	add(true, "two-protocols:split-by-address", "--pull", "--connect", "@A", "--push", "--data", "x")
	// no address
	for _, p := range protocols {
		c := optCase{name: "no-address:" + p, args: append([]string{"--" + p, "--data", "x"}, tmo...), strict: true, noAddr: true}
		cases = append(cases, c)
	}
	cases = append(cases, optCase{name: "no-arguments", args: nil, strict: true, noAddr: true})
	// two formats (every ordered pair of spellings)
	for _, a := range formatSpellings {
		for _, b := range formatSpellings {
			args := append([]string{"--pull", "--connect", "@A"}, a...)
			args = append(args, b...)
			add(true, "two-formats:"+strings.Join(a, "=")+"+"+strings.Join(b, "="), args...)
		}
	}
	// data / file conflicts
	for _, p := range []string{"push", "req", "rep"} {
		add(true, "data+file:"+p, "--"+p, "--connect", "@A", "--data", "x", "--file", existing)
		add(true, "file+data:"+p, "--"+p, "--connect", "@A", "--file", existing, "--data", "x")
		add(true, "data+data:"+p, "--"+p, "--connect", "@A", "--data", "x", "-D", "y")
		add(true, "file+file:"+p, "--"+p, "--connect", "@A", "-F", existing, "--file", existing)
	}
	// ... also when the first payload is the (legal) empty one
	for _, p := range []string{"push", "rep"} {
		add(true, "emptydata+data:"+p, "--"+p, "--connect", "@A", "--data", "", "--data", "y")
		add(true, "emptydata+file:"+p, "--"+p, "--connect", "@A", "-D", "", "--file", existing)
		add(true, "emptydata=+data:"+p, "--"+p, "--connect", "@A", "--data=", "-D", "y")
	}
	add(true, "file-missing-on-disk", "--push", "--connect", "@A", "--file", missing)
	// option value missing
	for _, o := range []string{"--data", "--file", "--connect", "--bind", "--count", "--recv-timeout", "--send-timeout", "--send-delay", "--send-interval", "--subscribe", "--format", "-D", "-x"} {
		add(true, "value-missing:"+o, "--push", "--connect", "@A", "--data", "x", o)
	}
	// --subscribe without SUB
	for _, p := range protocols {
		if p != "sub" {
			add(true, "subscribe-without-sub:"+p, "--"+p, "--connect", "@A", "--data", "x", "--subscribe", "a")
		}
	}
	// ... whatever the order of the options on the command line
	for _, p := range protocols {
		if p != "sub" {
			add(true, "subscribe-first-without-sub:"+p, "--subscribe", "a", "--"+p, "--connect", "@A", "--data", "x")
			add(true, "subscribe-before-protocol-without-sub:"+p, "--connect", "@A", "--subscribe=a", "--"+p, "--data", "x")
		}
	}
	cases = append(cases, optCase{name: "control:subscribe-with-sub", args: []string{"--sub", "--connect", "@A", "--subscribe", "a"}, control: true})
	cases = append(cases, optCase{name: "control:subscribe-first-with-sub", args: []string{"--subscribe", "a", "--sub", "--connect", "@A"}, control: true})
	// TLS without certificate / CA
	for _, sch := range []string{"tls+tcp", "wss"} {
		suffix := ""
		if sch == "wss" {
			suffix = "/x"
		}
		cases = append(cases, optCase{name: "tls-connect-without-cacert:" + sch, args: []string{"--pull", "--connect", sch + "://127.0.0.1:@P" + suffix}, net: "tcp", strict: true})
		cases = append(cases, optCase{name: "tls-bind-without-cert:" + sch, args: append([]string{"--pull", "--bind", sch + "://127.0.0.1:0" + suffix}, tmo...), strict: true, noAddr: true})
	}
	add(true, "cert-twice", "--pull", "--connect", "@A", "--cert", existing, "-E", existing)
	add(true, "key-twice", "--pull", "--connect", "@A", "--key", existing, "--key", existing)
	// not conflicting/missing in the strict sense: invalid values.  Counted only.
	add(false, "invalid:format-bogus", "--pull", "--connect", "@A", "--format", "bogus")
	add(false, "invalid:format-empty", "--pull", "--connect", "@A", "--format", "")
	add(false, "invalid:duration", "--pull", "--connect", "@A", "--recv-timeout", "soon")
	add(false, "invalid:count", "--push", "--connect", "@A", "--data", "x", "--count", "many")
	add(false, "invalid:address-without-scheme", "--pull", "--connect", "@P")
	add(false, "invalid:unknown-option", "--pull", "--connect", "@A", "--bogus")
	add(false, "invalid:extra-argument", "--pull", "--connect", "@A", "extra")
	add(false, "invalid:cacert-missing-on-disk", "--pull", "--connect", "@A", "--cacert", missing)

	var jobs []func()
	for _, c := range cases {
		c := c
		jobs = append(jobs, func() {
			if st.OutOfTime() {
				st.Cap("time budget exhausted")
				return
			}
			verdict := func() (bad string, input string) {
				exit, conn, hung, nout, serr, args, herr := runOpt(c)
				input = "macat " + shq(args)
				switch {
				case herr != "":
					return "harness: " + herr, input
				case hung:
					return fmt.Sprintf("did not exit within %v", watchdog), input
				case c.control:
					if !conn {
						return fmt.Sprintf("valid invocation never connected (exit %d, stderr: %s)", exit, serr), input
					}
					return "", input
				case exit == 0:
					return fmt.Sprintf("exit status 0 (connected=%v, stdout %d bytes)", conn, nout), input
				case conn:
					return fmt.Sprintf("exit status %d but it connected to the address first, i.e. it ran (stderr: %s)", exit, serr), input
				case nout != 0:
					return fmt.Sprintf("printed %d bytes on stdout", nout), input
				}
				return "", input
			}
			bad, input := verdict()
			st.Case(1)
			if bad == "" {
				st.Nontrivial(c.name)
				return
			}
			n := 0
			for i := 0; i < 3; i++ {
				if b, _ := verdict(); b != "" {
					n++
				}
			}
			if n < 3 {
				st.Count("unconfirmed-flaky")
				nt.add("unconfirmed: " + c.name + ": " + bad)
				return
			}
			if c.control {
				st.Fail("opt-grid:control:"+c.name, "fail", input, "detection control failed: %s", bad)
				return
			}
			if !c.strict {
				st.Count("invalid-value-not-rejected:" + c.name)
				nt.add("not asserted: " + c.name + ": " + bad)
				return
			}
			kind := "fail"
			if strings.HasPrefix(bad, "did not exit") {
				kind = "hang"
			}
			st.Fail("opt-grid:accepted:"+c.name, kind, input, "%s must be rejected with an error instead of running: %s", c.name, bad)
		})
	}

	// run level: push / pub without --data (and --file) must fail and send nothing
	for _, pat := range []txPattern{txPatterns[0], txPatterns[1]} {
		pat := pat
		jobs = append(jobs, func() {
			c := txCase{pat: pat, src: "none", n: 1}
			bad := func() (string, string) {
				r := runTx(c)
				in := "macat " + shq(r.args)
				switch {
				case r.herr != "":
					return "harness: " + r.herr, in
				case r.hung:
					return "did not exit", in
				case r.exit == 0:
					return fmt.Sprintf("exit status 0 (%d messages sent)", len(r.got)), in
				case len(r.got) > 0:
					return fmt.Sprintf("sent %d messages without --data/--file", len(r.got)), in
				}
				return "", in
			}
			b, in := bad()
			st.Case(1)
			if b == "" {
				st.Nontrivial("missing-data:" + pat.name)
				return
			}
			for i := 0; i < 3; i++ {
				if b2, _ := bad(); b2 == "" {
					st.Count("unconfirmed-flaky")
					return
				}
			}
			st.Fail("opt-grid:accepted:missing-data:"+pat.name, "fail", in, "%s without --data/--file must be rejected: %s", pat.name, b)
		})
	}
	// observation only: req / surveyor without --data send an empty request
	for _, pat := range []txPattern{{"req", "--req", rep.NewSocket, false, ""}, {"surveyor", "--surveyor", respondent.NewSocket, false, ""}} {
		pat := pat
		jobs = append(jobs, func() {
			r := runTx(txCase{pat: pat, src: "none", n: 1, extra: []string{"--recv-timeout", "1"}})
			st.Case(1)
			if r.exit == 0 || len(r.got) > 0 {
				st.Count("observed:" + pat.name + "-without-data-runs")
				nt.add(fmt.Sprintf("not asserted: macat %s without --data exits %d after sending %d (empty) message(s)", pat.proto, r.exit, len(r.got)))
			}
		})
	}
	runJobs(16, jobs)
	finishNotes(st, &nt, "parse-level rejections are observed with a plain listener behind --connect (no connection = did not run); invalid values (not 'conflicting or missing') are only counted")
}

// selfSignedPEM writes a self-signed certificate and its key into one PEM file.
func selfSignedPEM() (string, error) {
	key, err := ecdsa.GenerateKey(elliptic.P256(), crand.Reader)
	if err != nil {
		return "", err
	}
	tmpl := &x509.Certificate{SerialNumber: big.NewInt(20), Subject: pkix.Name{CommonName: "127.0.0.1"},
		NotBefore: time.Now().Add(-time.Hour), NotAfter: time.Now().Add(24 * time.Hour),
		KeyUsage: x509.KeyUsageDigitalSignature | x509.KeyUsageCertSign, ExtKeyUsage: []x509.ExtKeyUsage{x509.ExtKeyUsageServerAuth},
		IPAddresses: []net.IP{net.ParseIP("127.0.0.1")}, BasicConstraintsValid: true, IsCA: true}
	der, err := x509.CreateCertificate(crand.Reader, tmpl, tmpl, &key.PublicKey, key)
	if err != nil {
		return "", err
	}
	kb, err := x509.MarshalECPrivateKey(key)
	if err != nil {
		return "", err
	}
	path := sockPath("selfsigned") + ".pem"
	out := append(pem.EncodeToMemory(&pem.Block{Type: "CERTIFICATE", Bytes: der}), pem.EncodeToMemory(&pem.Block{Type: "EC PRIVATE KEY", Bytes: kb})...)
	return path, os.WriteFile(path, out, 0o600)
}

// ---- durations

func atoi(s string) int { n, _ := strconv.Atoi(s); return n }

func max1(n int) int {
	if n < 1 {
		return 1
	}
	return n
}

func lifeOf(p *proc) (time.Duration, bool) {
	if !p.waitExit(watchdog + 10*time.Second) {
		p.kill()
		return p.t1.Sub(p.t0), true
	}
	_ = p.out.Close()
	return p.t1.Sub(p.t0), false
}

func scenDurations(st *ekit.Stats, tier string) {
	var nt notes
	vals := []string{"1", "2"}
	if tier == "thorough" {
		vals = []string{"1", "2", "3"}
	}
	type mk struct {
		name string
		run  func(v string) (time.Duration, bool, []string, string, string)
	}
	plain := func(build func(path, v string) []string) func(v string) (time.Duration, bool, []string, string, string) {
		return func(v string) (time.Duration, bool, []string, string, string) {
			args := build(sockPath("dur"), v)
			p, err := startMacat(args...)
			if err != nil {
				return 0, false, args, err.Error(), ""
			}
			d, h := lifeOf(p)
			return d, h, args, "", fmt.Sprintf("exit %d", p.exitCode())
		}
	}
	makers := []mk{
		{"recv-timeout:pull:no-peer", plain(func(p, v string) []string { return []string{"--pull", "--bind", "ipc://" + p, "--recv-timeout", v} })},
		{"recv-timeout=:sub:no-peer", plain(func(p, v string) []string { return []string{"--sub", "--bind-ipc", p, "--recv-timeout=" + v} })},
		{"recv-timeout:rep:no-peer", plain(func(p, v string) []string { return []string{"--rep", "-X", p, "--recv-timeout", v, "--data", "x"} })},
		{"recv-timeout:pair:no-peer", plain(func(p, v string) []string { return []string{"--pair", "-X", p, "--recv-timeout", v} })},
		// req blocks in send until a peer is there (push/pub/bus queue or drop instead)
		{"send-timeout:req:no-peer", plain(func(p, v string) []string {
			return []string{"--req", "--bind", "ipc://" + p, "--data", "x", "--send-timeout", v}
		})},
		{"send-timeout=:req:no-peer", plain(func(p, v string) []string {
			return []string{"--req", "-X", p, "-D", "x", "--send-timeout=" + v, "--recv-timeout", "100ms"}
		})},
		{"send-delay:pub:no-peer", plain(func(p, v string) []string {
			return []string{"--pub", "--bind", "ipc://" + p, "--data", "x", "--send-delay", v}
		})},
		{"d:pub:no-peer", plain(func(p, v string) []string { return []string{"--pub", "--bind", "ipc://" + p, "--data", "x", "-d", v} })},
		{"send-interval:pub:count2", plain(func(p, v string) []string {
			return []string{"--pub", "--bind", "ipc://" + p, "--data", "x", "--send-interval", v, "--count", "2"}
		})},
		{"i:pub:count2", plain(func(p, v string) []string {
			return []string{"--pub", "--bind", "ipc://" + p, "--data", "x", "--count", "2", "-i", v}
		})},
		{"send-interval:bus:count2", plain(func(p, v string) []string {
			return []string{"--bus", "--bind", "ipc://" + p, "--data", "x", "--send-interval=" + v, "--count", "2"}
		})},
		// every gap is the interval, not only the first: n messages take (n-1) intervals
		{"send-interval:pub:count4", plain(func(p, v string) []string {
			return []string{"--pub", "--bind", "ipc://" + p, "--data", "x", "--send-interval", v, "--count", "4"}
		})},
		{"send-interval:push:count3", plain(func(p, v string) []string {
			return []string{"--push", "--bind", "ipc://" + p, "--data", "x", "-i", v, "--count", "3", "--send-timeout", "20"}
		})},
		{"send-interval:bus:count3", plain(func(p, v string) []string {
			return []string{"--bus", "--bind", "ipc://" + p, "--data", "x", "--send-interval=" + v, "--count", "3"}
		})},
	}
	gaps := map[string]int{"send-interval:pub:count4": 3, "send-interval:push:count3": 2, "send-interval:bus:count3": 2}
	var jobs []func()
	for mi, m := range makers {
		mvals := vals
		// bare integers are decimal seconds whatever they look like: "08" is eight seconds (not a
		// malformed octal number) and "010" is ten (not eight)
		if tier == "thorough" {
			mvals = append(append([]string{}, vals...), "08", "010")
		} else if mi == 0 || mi == 8 {
			mvals = append(append([]string{}, vals...), "08")
		}
		for _, v := range mvals {
			m, v := m, v
			jobs = append(jobs, func() {
				secs, _ := strconv.Atoi(v)
				if g := gaps[m.name]; g > 0 {
					secs *= g
				}
				check := func() (string, string, bool) {
					life, hung, args, herr, info := m.run(v)
					in := "macat " + shq(args)
					if herr != "" {
						return "harness: " + herr, in, false
					}
					if hung {
						return fmt.Sprintf("did not exit within %v", watchdog+10*time.Second), in, true
					}
					if life < time.Duration(secs)*time.Second {
						return fmt.Sprintf("process lived only %v, %s second(s) were requested, %d time(s) (%s)", life.Round(time.Millisecond), v, secs/max1(atoi(v)), info), in, false
					}
					return "", in, false
				}
				bad, in, hung := check()
				st.Case(1)
				if bad == "" {
					st.Nontrivial(m.name + ":" + v)
					return
				}
				for i := 0; i < 3; i++ {
					if b, _, _ := check(); b == "" {
						st.Count("unconfirmed-flaky")
						nt.add("unconfirmed: " + m.name + " " + v + ": " + bad)
						return
					}
				}
				kind := "fail"
				if hung {
					kind = "hang"
				}
				st.Fail("durations:"+m.name+":"+v, kind, in, "bare integer %s must mean %s second(s): %s", v, v, bad)
			})
		}
	}
	// durations with units keep their Go meaning beside the bare integers: minutes and hours are not
	// seconds or milliseconds.  Long ones are observed for three seconds (the process must still
	// be there), short ones to their end.
	unitVals := []struct {
		v string
		d time.Duration
	}{{"1500ms", 1500 * time.Millisecond}, {"2s", 2 * time.Second}, {"1m", time.Minute}, {"1m1s", 61 * time.Second}, {"1h", time.Hour}, {"0h1m", time.Minute}}
	unitBuilders := []struct {
		name  string
		build func(path, v string) []string
	}{
		{"recv-timeout:pull:no-peer", func(p, v string) []string { return []string{"--pull", "--bind", "ipc://" + p, "--recv-timeout", v} }},
		{"send-interval:pub:count2", func(p, v string) []string {
			return []string{"--pub", "--bind", "ipc://" + p, "--data", "x", "--send-interval", v, "--count", "2"}
		}},
		{"send-delay:pub:no-peer", func(p, v string) []string {
			return []string{"--pub", "--bind", "ipc://" + p, "--data", "x", "--send-delay=" + v}
		}},
	}
	for _, ub := range unitBuilders {
		for _, uv := range unitVals {
			ub, uv := ub, uv
			jobs = append(jobs, func() {
				check := func() (string, string) {
					args := ub.build(sockPath("dur"), uv.v)
					in := "macat " + shq(args)
					p, err := startMacat(args...)
					if err != nil {
						return "harness: " + err.Error(), in
					}
					if uv.d > 3*time.Second {
						if p.waitExit(3 * time.Second) {
							_ = p.out.Close()
							return fmt.Sprintf("process ended after %v (exit %d), the duration given is %v", p.t1.Sub(p.t0).Round(time.Millisecond), p.exitCode(), uv.d), in
						}
						p.kill()
						return "", in
					}
					life, hung := lifeOf(p)
					if hung {
						return fmt.Sprintf("did not exit within %v", watchdog+10*time.Second), in
					}
					if life < uv.d {
						return fmt.Sprintf("process lived only %v, the duration given is %v (exit %d)", life.Round(time.Millisecond), uv.d, p.exitCode()), in
					}
					return "", in
				}
				bad, in := check()
				st.Case(1)
				if bad == "" {
					st.Nontrivial(ub.name + ":" + uv.v)
					st.Count("duration-with-unit-honoured")
					return
				}
				for i := 0; i < 3; i++ {
					if b, _ := check(); b == "" {
						st.Count("unconfirmed-flaky")
						nt.add("unconfirmed: " + ub.name + " " + uv.v + ": " + bad)
						return
					}
				}
				st.Fail("durations:"+ub.name+":"+uv.v, "fail", in, "duration %s must mean %v: %s", uv.v, uv.d, bad)
			})
		}
	}
	// with a connected but silent peer (the wording of the property example), and with a
	// peer that receives: the delayed / spaced messages must also arrive
	for _, v := range vals {
		v := v
		secs := int(v[0] - '0')
		type pc struct {
			name  string
			pat   txPattern
			want  int
			extra []string
		}
		pcs := []pc{
			{"recv-timeout:pull:silent-peer", txPattern{"pull", "--pull", push.NewSocket, false, ""}, 0, []string{"--recv-timeout", v}},
			{"send-delay:push:peer", txPattern{"push", "--push", pull.NewSocket, false, ""}, 1, []string{"--send-delay", v}},
			{"send-interval:push:peer:count2", txPattern{"push", "--push", pull.NewSocket, false, ""}, 2, []string{"--send-interval", v, "--count", "2"}},
		}
		for _, c := range pcs {
			c := c
			jobs = append(jobs, func() {
				check := func() (string, string, bool) {
					tc := txCase{pat: c.pat, src: "data-sep", data: []byte("x"), n: -1, extra: c.extra}
					if c.want == 0 {
						tc.src = "none"
					}
					r := runTx(tc)
					in := "macat " + shq(r.args)
					switch {
					case r.herr != "":
						return "harness: " + r.herr, in, false
					case r.hung:
						return "did not exit", in, true
					case r.life < time.Duration(secs)*time.Second:
						return fmt.Sprintf("process lived only %v, %s second(s) were requested", r.life.Round(time.Millisecond), v), in, false
					case len(r.got) != c.want:
						return fmt.Sprintf("%d messages arrived, want %d", len(r.got), c.want), in, false
					}
					return "", in, false
				}
				bad, in, hung := check()
				st.Case(1)
				if bad == "" {
					st.Nontrivial(c.name + ":" + v)
					return
				}
				for i := 0; i < 3; i++ {
					if b, _, _ := check(); b == "" {
						st.Count("unconfirmed-flaky")
						return
					}
				}
				kind := "fail"
				if hung {
					kind = "hang"
				}
				st.Fail("durations:"+c.name+":"+v, kind, in, "duration value %s (bare integer = seconds), life time lower bound and delivery: %s", v, bad)
			})
		}
	}
	runJobs(len(jobs), jobs)
	finishNotes(st, &nt, "only the lower bound (process life time >= N s, measured around the process) is asserted; the upper watchdog is 40 s")
}
