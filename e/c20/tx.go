package c20

// Scenario tx-data-file-count: macat sends exactly the bytes of --data / --file, the
// number of times requested, for every sending pattern.  One macat process per case.
// "Exactly n, not more" is decided after the process has exited and the harness socket
// has seen the pipe detach (everything macat wrote has then been queued locally).

import (
	"bytes"
	"fmt"
	"net"
	"os"
	"strconv"
	"strings"
	"sync"
	"time"

	"go.nanomsg.org/mangos/v3"
	"go.nanomsg.org/mangos/v3/protocol/bus"
	"go.nanomsg.org/mangos/v3/protocol/pair"
	"go.nanomsg.org/mangos/v3/protocol/pull"
	"go.nanomsg.org/mangos/v3/protocol/rep"
	"go.nanomsg.org/mangos/v3/protocol/respondent"
	"go.nanomsg.org/mangos/v3/protocol/star"
	"go.nanomsg.org/mangos/v3/protocol/sub"
	"go.nanomsg.org/mangos/v3/ve/ekit"
)

type txPattern struct {
	name     string
	proto    string
	peer     func() (mangos.Socket, error)
	interval bool   // pass --send-interval 10ms (needed by the duplex protocols to repeat)
	ival     string // the interval value passed, "" = 10ms ("0" is an interval too: repeat without pause)
}

func subAll() (mangos.Socket, error) {
	s, err := sub.NewSocket()
	if err == nil {
		err = s.SetOption(mangos.OptionSubscribe, []byte{})
	}
	return s, err
}

var txPatterns = []txPattern{
	{"push", "--push", pull.NewSocket, false, ""},
	{"pub", "--pub", subAll, false, ""},
	{"push-i", "--push", pull.NewSocket, true, ""},
	{"pub-i", "--pub", subAll, true, ""},
	{"pair-i", "--pair", pair.NewSocket, true, ""},
	{"bus-i", "--bus", bus.NewSocket, true, ""},
	{"star-i", "--star", star.NewSocket, true, ""},
	{"req-i", "--req", rep.NewSocket, true, ""},
	{"surveyor-i", "--surveyor", respondent.NewSocket, true, ""},
	{"req-i0", "--req", rep.NewSocket, true, "0"},
	{"pair-i0", "--pair", pair.NewSocket, true, "0"},
	{"surveyor-i0", "--surveyor", respondent.NewSocket, true, "0s"},
	{"push-i0", "--push", pull.NewSocket, true, "0ms"},
	// an interval longer than the default survey time (1s): nobody answers, every survey expires
	// before the next one is due - and the next one is sent all the same
	{"surveyor-i-expiring", "--surveyor", respondent.NewSocket, true, "1200ms"},
}

// duplex protocols without --send-interval (see scenario tx-count-duplex-nointerval)
var txDuplexNoInterval = []txPattern{
	{"pair", "--pair", pair.NewSocket, false, ""},
	{"bus", "--bus", bus.NewSocket, false, ""},
	{"star", "--star", star.NewSocket, false, ""},
	{"req", "--req", rep.NewSocket, false, ""},
	{"surveyor", "--surveyor", respondent.NewSocket, false, ""},
}

type txCase struct {
	pat   txPattern
	src   string // data-sep data-eq D-sep D-att file-sep file-eq F-sep F-att
	data  []byte
	n     int
	addr  string   // address form, "" = "--connect ipc://"
	extra []string // extra options
	fkind string   // what --file names, "" = a regular file written by the harness (see txfile.go)
	fpath string   // fkind "proc": the path
}

func (c txCase) isFile() bool {
	return strings.HasPrefix(c.src, "file") || strings.HasPrefix(c.src, "F")
}

type txResult struct {
	got    [][]byte
	exit   int
	hung   bool
	stderr string
	args   []string
	herr   string // harness side problem (setup)
	life   time.Duration
	detach bool // the harness saw the pipe detach after macat exited
	diag   string
}

var addrForms = []string{
	"--connect ipc://", "--connect=ipc://", "--connect-ipc", "-x", "-x-att",
	"--bind ipc://", "--bind-ipc", "-X",
	"--connect tcp://", "--connect-local", "-l",
	"--bind tcp://", "--bind-local", "-L",
}

func freeTCPPort() (int, error) {
	l, err := net.Listen("tcp", "127.0.0.1:0")
	if err != nil {
		return 0, err
	}
	p := l.Addr().(*net.TCPAddr).Port
	_ = l.Close()
	return p, nil
}

func runTx(c txCase) (res txResult) {
	pe, err := newPeer(c.pat.peer)
	if err != nil {
		res.herr = err.Error()
		return
	}
	defer pe.sock.Close()
	form := c.addr
	if form == "" {
		form = addrForms[0]
	}
	var aargs []string
	macatBinds := strings.Contains(form, "bind") || form == "-X" || form == "-L"
	tcp := strings.Contains(form, "tcp") || strings.Contains(form, "local") || form == "-l" || form == "-L"
	var full, short string // full url, and path/port
	if tcp {
		if macatBinds {
			port, err := freeTCPPort()
			if err != nil {
				res.herr = err.Error()
				return
			}
			short = strconv.Itoa(port)
		} else {
			l, err := pe.sock.NewListener("tcp://127.0.0.1:0", nil)
			if err == nil {
				err = l.Listen()
			}
			if err != nil {
				res.herr = "harness tcp listen: " + err.Error()
				return
			}
			a := l.Address()
			short = a[strings.LastIndex(a, ":")+1:]
		}
		full = "tcp://127.0.0.1:" + short
	} else {
		short = sockPath("tx")
		full = "ipc://" + short
		if !macatBinds {
			if err := pe.sock.Listen(full); err != nil {
				res.herr = "harness listen: " + err.Error()
				return
			}
		}
	}
	if macatBinds {
		if err := pe.dialRetry(full); err != nil {
			res.herr = "harness dial: " + err.Error()
			return
		}
	}
	switch form {
	case "--connect ipc://", "--connect tcp://":
		aargs = []string{"--connect", full}
	case "--connect=ipc://":
		aargs = []string{"--connect=" + full}
	case "--bind ipc://", "--bind tcp://":
		aargs = []string{"--bind", full}
	case "-x-att":
		aargs = []string{"-x" + short}
	default:
		aargs = []string{form, short}
	}

	args := append([]string{c.pat.proto}, aargs...)
	var stdin *os.File
	if c.isFile() {
		f, in, cleanup, err := prepareFile(c)
		if err != nil {
			res.herr = err.Error()
			return
		}
		defer cleanup()
		stdin = in
		switch c.src {
		case "file-sep":
			args = append(args, "--file", f)
		case "file-eq":
			args = append(args, "--file="+f)
		case "F-sep":
			args = append(args, "-F", f)
		case "F-att":
			args = append(args, "-F"+f)
		}
	} else {
		d := string(c.data)
		switch c.src {
		case "data-sep":
			args = append(args, "--data", d)
		case "data-eq":
			args = append(args, "--data="+d)
		case "D-sep":
			args = append(args, "-D", d)
		case "D-att":
			args = append(args, "-D"+d)
		}
	}
	if c.n >= 0 {
		if c.n%2 == 0 {
			args = append(args, "--count="+strconv.Itoa(c.n))
		} else {
			args = append(args, "--count", strconv.Itoa(c.n))
		}
	}
	if c.pat.interval {
		iv := "10ms"
		if c.pat.ival != "" {
			iv = c.pat.ival
		}
		args = append(args, "--send-interval", iv)
	}
	args = append(args, c.extra...)
	res.args = args

	// receiver
	_ = pe.sock.SetOption(mangos.OptionRecvDeadline, 60*time.Millisecond)
	var mu sync.Mutex
	stop := false
	rdone := make(chan struct{})
	go func() {
		defer close(rdone)
		// The loop ends with a Recv call that was STARTED after stop was set and that
		// timed out.  (A Recv that was already pending when stop was set may report a
		// timeout although a message is queued - both select cases ready - so its
		// timeout proves nothing.)
		armed := false
		for {
			m, err := pe.sock.Recv()
			if err == nil {
				mu.Lock()
				res.got = append(res.got, m)
				mu.Unlock()
				armed = false
				if c.pat.ival != "" && c.pat.name != "push-i0" && c.pat.name != "surveyor-i-expiring" {
					// with an interval of zero macat waits for the answer before it sends again
					_ = pe.sock.Send([]byte("answer"))
				}
				continue
			}
			if err != mangos.ErrRecvTimeout {
				return
			}
			if armed {
				return
			}
			mu.Lock()
			armed = stop
			mu.Unlock()
		}
	}()

	p, err := startMacatIn(stdin, args...)
	if stdin != nil {
		_ = stdin.Close() // the child has its own copy
	}
	if err != nil {
		res.herr = err.Error()
	} else {
		if !p.waitExit(watchdog) {
			res.hung = true
			p.kill()
		}
		_ = p.out.Close()
		res.exit = p.exitCode()
		res.life = p.t1.Sub(p.t0)
		res.stderr = p.stderrText()
		// everything macat wrote before exiting is queued once the pipe has detached
		res.detach = pe.waitDetach(5 * time.Second)
		rel := func(ns int64) string {
			if ns == 0 {
				return "never"
			}
			return time.Unix(0, ns).Sub(p.t0).Round(time.Millisecond).String()
		}
		res.diag = fmt.Sprintf("harness pipe attached at +%s, detached at +%s", rel(pe.tAtt.Load()), rel(pe.tDet.Load()))
	}
	mu.Lock()
	stop = true
	mu.Unlock()
	<-rdone
	return
}

// checkTx returns "" if the result is what the property demands.
func checkTx(c txCase, r txResult, want int) (class, msg string) {
	if r.herr != "" {
		return "harness", "harness setup: " + r.herr
	}
	if r.hung {
		return "hang", fmt.Sprintf("macat did not exit within %v (received %d messages so far)", watchdog, len(r.got))
	}
	for i, g := range r.got {
		if !bytes.Equal(g, c.data) {
			return "bytes", fmt.Sprintf("message %d of %d is %s, the data given was %s", i+1, len(r.got), show(g), show(c.data))
		}
	}
	if len(r.got) != want {
		return "count", fmt.Sprintf("received %d messages, %d requested (exit %d, life %v, pipe detach seen %v, %s, stderr: %s)", len(r.got), want, r.exit, r.life.Round(time.Millisecond), r.detach, r.diag, r.stderr)
	}
	return "", ""
}

func txJob(st *ekit.Stats, scen string, c txCase, nt *notes) func() {
	return func() {
		if st.OutOfTime() {
			st.Cap("time budget exhausted")
			return
		}
		r := runTx(c)
		st.Case(c.n)
		class, msg := checkTx(c, r, c.n)
		if class == "" {
			if r.exit != 0 {
				st.Count("sent-correctly-but-exit-nonzero")
			}
			st.Nontrivial(fmt.Sprintf("%s:%s:n=%d", c.pat.name, c.src, c.n))
			if len(c.data) == 1 {
				st.Nontrivial(fmt.Sprintf("%s:byte:%02x", c.src[:1], c.data[0]))
			} else {
				st.Nontrivial(fmt.Sprintf("len:%d", len(c.data)))
			}
			if c.addr != "" {
				st.Nontrivial("addr:" + c.addr)
			}
			return
		}
		fails := 0
		for i := 0; i < 3; i++ {
			r2 := runTx(c)
			if c2, _ := checkTx(c, r2, c.n); c2 != "" {
				fails++
			}
		}
		if fails < 3 {
			st.Count("unconfirmed-flaky")
			nt.add(fmt.Sprintf("unconfirmed (failed %d/3 re-runs): macat %s: %s", fails, shq(r.args), msg))
			return
		}
		kind := "fail"
		if class == "hang" {
			kind = "hang"
		}
		sig := fmt.Sprintf("%s:%s:%s:%s:n=%d", scen, class, c.pat.name, srcKind(c.src), c.n)
		if class == "bytes" {
			sig = fmt.Sprintf("%s:bytes:%s:%s", scen, srcKind(c.src), bodyKey(c.data))
		}
		if class == "count" {
			sig += fmt.Sprintf(":got=%d", len(r.got))
		}
		input := "macat " + shq(r.args) + " ; peer: harness " + c.pat.name + " counterpart"
		if c.isFile() {
			input += fmt.Sprintf(" ; file content hex %x", clip(c.data))
		}
		st.Fail(sig, kind, input, "pattern %s: %s", c.pat.name, msg)
	}
}

func txWorkers(tier string) int {
	if v, err := strconv.Atoi(os.Getenv("C20_TX_WORKERS")); err == nil && v > 0 {
		return v // debugging aid: raise the load
	}
	return workers(tier) + 4
}

func srcKind(s string) string {
	if strings.HasPrefix(s, "file") || strings.HasPrefix(s, "F") {
		return "file"
	}
	return "data"
}

func dataFill(n int) []byte { // like fillMixed but without NUL (argv)
	b := make([]byte, n)
	for i := range b {
		b[i] = byte((i*7+i/256)%255) + 1
	}
	return b
}

func init() {
	ekit.Register("C20", ekit.Scenario{Name: "tx-data-file-count", Run: scenTx})
	ekit.Register("C20", ekit.Scenario{Name: "tx-count-duplex-nointerval", Run: scenTxNoInterval})
}

func scenTx(st *ekit.Stats, tier string) {
	var nt notes
	var jobs []func()
	ns := []int{1}
	if tier == "thorough" {
		ns = []int{1, 2, 3}
	}
	// A: every 1 byte body on push
	for _, n := range ns {
		for b := 0; b < 256; b++ {
			jobs = append(jobs, txJob(st, "tx", txCase{pat: txPatterns[0], src: "file-sep", data: []byte{byte(b)}, n: n}, &nt))
			if b != 0 {
				src := "data-sep"
				if b == '-' || b == '=' {
					src = "data-eq" // also fine as separate argument, see part C
				}
				jobs = append(jobs, txJob(st, "tx", txCase{pat: txPatterns[0], src: src, data: []byte{byte(b)}, n: n}, &nt))
			}
		}
	}
	// B: small set x n x every sending pattern x data/file
	small := [][]byte{{}, []byte("a"), []byte("\\"), []byte("\""), []byte("\n"), []byte("\r\n"), []byte(" a "),
		{0x7f, 0x80, 0xff}, []byte("-x"), []byte("--pull"), []byte("a=b"),
		dataFill(255), dataFill(256), dataFill(257), dataFill(65535), dataFill(65536), dataFill(65537)}
	for _, pat := range txPatterns {
		for di, d := range small {
			if pat.ival != "" && di > 2 {
				continue // the zero-interval variants: three bodies are enough
			}
			if tier != "thorough" && len(d) > 257 && pat.name != "push" && pat.name != "pair-i" && pat.name != "req-i" {
				continue
			}
			for _, n := range []int{1, 2, 3} {
				jobs = append(jobs, txJob(st, "tx", txCase{pat: pat, src: "data-sep", data: d, n: n}, &nt))
				fd := d
				if len(d) > 200 {
					fd = fillMixed(len(d)) // files may contain NUL
				}
				jobs = append(jobs, txJob(st, "tx", txCase{pat: pat, src: "file-sep", data: fd, n: n}, &nt))
			}
		}
	}
	// C: option spellings x awkward values (push, n = 1, 2)
	for _, src := range []string{"data-sep", "data-eq", "D-sep", "D-att", "file-sep", "file-eq", "F-sep", "F-att"} {
		for _, d := range []string{"a", "-x", "--pull", "=v", "a=b", "", "-", "--", " "} {
			if src == "D-att" && (d == "" || d[0] == '=') {
				continue // -D=v is documented by the option parser as "-D v"; -D "" needs a separate argument
			}
			for _, n := range []int{1, 2} {
				jobs = append(jobs, txJob(st, "tx", txCase{pat: txPatterns[0], src: src, data: []byte(d), n: n}, &nt))
			}
		}
	}
	// D: address option forms.  When macat connects, push is used.  When macat binds, the
	// harness dials in the background and may be late: push/pub would queue the message and
	// exit (mangos semantics, not macat's fault), so req is used there - its send blocks
	// until the peer is connected.
	for _, form := range addrForms {
		pat := txPatterns[0]
		if strings.Contains(form, "bind") || form == "-X" || form == "-L" {
			pat = txPatterns[7]
		}
		for _, n := range []int{1, 2} {
			jobs = append(jobs, txJob(st, "tx", txCase{pat: pat, src: "data-sep", data: []byte("a\\\"\n"), n: n, addr: form}, &nt))
		}
	}
	// E (thorough): every body of length 2-3 over the alphabet, --file (and --data where argv allows)
	if tier == "thorough" {
		for _, b := range append(alphaBodies(2), alphaBodies(3)...) {
			jobs = append(jobs, txJob(st, "tx", txCase{pat: txPatterns[0], src: "F-sep", data: b, n: 1}, &nt))
			if !bytes.Contains(b, []byte{0}) {
				jobs = append(jobs, txJob(st, "tx", txCase{pat: txPatterns[0], src: "D-sep", data: b, n: 1}, &nt))
			}
		}
	}
	st.Sample(map[string]interface{}{"pattern": "pair-i", "args": "--pair --connect ipc://... --data a=b --count=2 --send-interval 10ms", "expect": "2 messages 'a=b'"})
	runJobs(txWorkers(tier), jobs)
	finishNotes(st, &nt, "--count n with push/pub, and with --send-interval 10ms for every sending protocol; exit status of a correct run is only counted; --count 0 and the default count are not asserted")
}

// scenTxNoInterval: the duplex protocols (pair, bus, star, req, surveyor) with --data
// and --count n but WITHOUT --send-interval.  --recv-timeout 1 makes macat exit.
func scenTxNoInterval(st *ekit.Stats, tier string) {
	var nt notes
	var jobs []func()
	for _, pat := range txDuplexNoInterval {
		// Without --send-interval macat's duplex mode is "send once, then receive"; --count then
		// governs the receive phase ("Repeat COUNT times" does not say which).  The property's
		// "number of times requested" is therefore only unambiguous for n = 1 here; n > 1 is
		// asserted in tx-data-file-count, where --send-interval makes every repetition a send.
		for _, n := range []int{1} {
			jobs = append(jobs, txJob(st, "tx-nointerval", txCase{pat: pat, src: "data-sep", data: []byte("ping"), n: n, extra: []string{"--recv-timeout", "1"}}, &nt))
		}
	}
	runJobs(15, jobs)
	finishNotes(st, &nt, "--count n without --send-interval on pair/bus/star/req/surveyor; --recv-timeout 1 ends the receive phase")
}
