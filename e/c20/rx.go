package c20

// Scenario rx-print-formats: every body x every format x every receiving pattern.
// One macat process per (format, pattern); per case the harness sends body then a
// sentinel, and reads the two records back.

import (
	"bytes"
	"fmt"
	"io"
	"sync"
	"time"

	"go.nanomsg.org/mangos/v3"
	"go.nanomsg.org/mangos/v3/protocol/bus"
	"go.nanomsg.org/mangos/v3/protocol/pair"
	"go.nanomsg.org/mangos/v3/protocol/pub"
	"go.nanomsg.org/mangos/v3/protocol/push"
	"go.nanomsg.org/mangos/v3/protocol/rep"
	"go.nanomsg.org/mangos/v3/protocol/req"
	"go.nanomsg.org/mangos/v3/protocol/respondent"
	"go.nanomsg.org/mangos/v3/protocol/star"
	"go.nanomsg.org/mangos/v3/protocol/surveyor"
	"go.nanomsg.org/mangos/v3/ve/ekit"
)

var sentinel = []byte("\x02C20<END>\x03")

const (
	replyData = "R\\\"\n\x7f" // what macat --rep/--respondent --data answers
	askData   = "Q\\\"\n\x7f" // what macat --req/--surveyor --data asks
)

type rxMode int

const (
	modeOneway  rxMode = iota // harness sends, macat prints
	modeReplied               // harness sends, macat prints and replies --data
	modeAsks                  // macat asks (--data, -i 0), harness replies body, macat prints the reply
)

type rxPattern struct {
	name  string
	proto string
	peer  func() (mangos.Socket, error)
	mode  rxMode
}

var rxPatterns = []rxPattern{
	{"pull", "--pull", push.NewSocket, modeOneway},
	{"sub", "--sub", pub.NewSocket, modeOneway},
	{"pair", "--pair", pair.NewSocket, modeOneway},
	{"bus", "--bus", bus.NewSocket, modeOneway},
	{"star", "--star", star.NewSocket, modeOneway},
	{"rep", "--rep", req.NewSocket, modeOneway},
	{"rep+data", "--rep", req.NewSocket, modeReplied},
	{"respondent", "--respondent", surveyor.NewSocket, modeOneway},
	{"respondent+data", "--respondent", surveyor.NewSocket, modeReplied},
	{"req-i0", "--req", rep.NewSocket, modeAsks},
	{"surveyor-i0", "--surveyor", respondent.NewSocket, modeAsks},
}

// the spellings of the format options; every spelling is used by at least one pattern
var formatFlags = map[string][][]string{
	"raw":     {{"--raw"}, {"--format", "raw"}, {"--format=raw"}},
	"ascii":   {{"--ascii"}, {"-A"}, {"--format", "ascii"}},
	"quoted":  {{"--quoted"}, {"-Q"}, {"--format=quoted"}},
	"msgpack": {{"--msgpack"}, {"--format", "msgpack"}, {"--format=msgpack"}},
}

var formats = []string{"raw", "ascii", "quoted", "msgpack"}

var alphabet = []byte{'\\', '"', '\n', '\r', ' ', 'a', 0x00, 0x7f, 0x80, 0xff}

var boundaryLens = []int{0, 1, 254, 255, 256, 257, 65534, 65535, 65536, 65537}

func fillMixed(n int) []byte {
	b := make([]byte, n)
	for i := range b {
		b[i] = byte(i*7 + i/256)
	}
	return b
}

func fillConst(n int, c byte) []byte { return bytes.Repeat([]byte{c}, n) }

func oneByteBodies() [][]byte {
	var r [][]byte
	for i := 0; i < 256; i++ {
		r = append(r, []byte{byte(i)})
	}
	return r
}

func alphaBodies(n int) [][]byte {
	var r [][]byte
	idx := make([]int, n)
	for {
		b := make([]byte, n)
		for i, k := range idx {
			b[i] = alphabet[k]
		}
		r = append(r, b)
		i := n - 1
		for ; i >= 0; i-- {
			idx[i]++
			if idx[i] < len(alphabet) {
				break
			}
			idx[i] = 0
		}
		if i < 0 {
			return r
		}
	}
}

func boundaryBodies() [][]byte {
	var r [][]byte
	for _, n := range boundaryLens {
		r = append(r, fillMixed(n))
		if n > 1 {
			r = append(r, fillConst(n, '\\'), fillConst(n, 0xe9))
		}
	}
	return r
}

func twoByteBodies(lo, hi int) [][]byte {
	var r [][]byte
	for i := lo; i < hi; i++ {
		r = append(r, []byte{byte(i >> 8), byte(i)})
	}
	return r
}

// rxFailure is one failing case of a session.
type rxFailure struct {
	idx   int
	class string
	kind  string
	msg   string
}

type rxSession struct {
	format string
	fflag  []string
	pat    rxPattern
	extra  []string // extra macat options (e.g. --subscribe)
	sent   []byte   // sentinel used (must pass a subscription)
	pe     *peer
	p      *proc
	recs   chan record
	args   []string
}

func (s *rxSession) open() error {
	path := sockPath("rx")
	pe, err := newPeer(s.pat.peer)
	if err != nil {
		return err
	}
	s.pe = pe
	addr := "ipc://" + path
	if err := pe.sock.Listen(addr); err != nil {
		_ = pe.sock.Close()
		return fmt.Errorf("harness listen: %v", err)
	}
	args := []string{s.pat.proto, "--connect", addr}
	args = append(args, s.fflag...)
	switch s.pat.mode {
	case modeReplied:
		args = append(args, "--data", replyData)
	case modeAsks:
		args = append(args, "--data", askData, "--send-interval", "0")
	}
	args = append(args, s.extra...)
	s.args = args
	p, err := startMacat(args...)
	if err != nil {
		_ = pe.sock.Close()
		return err
	}
	s.p = p
	s.recs = make(chan record, 64)
	go readRecords(s.format, p.out, s.sent, s.recs)
	if !pe.waitAttach(watchdog) {
		s.close()
		return fmt.Errorf("macat never connected (stderr: %s)", p.stderrText())
	}
	return nil
}

// unsolicited: a macat that was given no --data / --file sends nothing.  On the patterns where the
// peer could receive (pair, bus, star) the peer looks into its queue at the end of the session -
// macat has printed records by then, so whatever it sent when it started has long arrived.
func (s *rxSession) unsolicited() (string, bool) {
	if s.pat.mode != modeOneway || (s.pat.name != "pair" && s.pat.name != "bus" && s.pat.name != "star") {
		return "", false
	}
	if err := s.pe.sock.SetOption(mangos.OptionRecvDeadline, 300*time.Millisecond); err != nil {
		return "", false
	}
	b, err := s.pe.sock.Recv()
	if err != nil {
		return "", false
	}
	return show(b), true
}

// close kills macat and returns whatever output was left unread.
func (s *rxSession) close() (trailing []byte) {
	s.p.kill()
	for r := range s.recs {
		trailing = append(trailing, r.data...)
		if r.err == nil && s.format != "raw" {
			trailing = append(trailing, '|')
		}
	}
	_ = s.p.out.Close()
	_ = s.pe.sock.Close()
	return trailing
}

func (s *rxSession) deliver(payload []byte) error {
	sock := s.pe.sock
	switch s.pat.mode {
	case modeOneway:
		return sock.Send(payload)
	case modeReplied:
		if err := sock.Send(payload); err != nil {
			return err
		}
		r, err := sock.Recv()
		if err != nil {
			return fmt.Errorf("waiting for macat's reply: %v", err)
		}
		if string(r) != replyData {
			return fmt.Errorf("reply-mismatch: macat replied %s, --data was %s", show(r), show([]byte(replyData)))
		}
		return nil
	default:
		q, err := sock.Recv()
		if err != nil {
			return fmt.Errorf("waiting for macat's request: %v", err)
		}
		if string(q) != askData {
			return fmt.Errorf("request-mismatch: macat asked %s, --data was %s", show(q), show([]byte(askData)))
		}
		return sock.Send(payload)
	}
}

func (s *rxSession) next() (record, bool) {
	select {
	case r, ok := <-s.recs:
		if !ok {
			return record{err: fmt.Errorf("stdout closed")}, true
		}
		return r, true
	case <-time.After(watchdog):
		return record{}, false
	}
}

// doCase runs one case.  insync=false means the session can not be used any more.
func (s *rxSession) doCase(body []byte, expectPrinted bool) (class, kind, msg string, notes []string, insync bool) {
	if err := s.deliver(body); err != nil {
		return "deliver-body", "hang", err.Error(), nil, false
	}
	if err := s.deliver(s.sent); err != nil {
		return "deliver-sentinel", "hang", err.Error(), nil, false
	}
	a, ok := s.next()
	if !ok {
		return "no-output", "hang", fmt.Sprintf("no record within %v after body and sentinel were sent", watchdog), nil, false
	}
	if a.err != nil {
		return "stream-broken", "fail", fmt.Sprintf("output stream ended/broke: %v; partial %s; stderr: %s", a.err, show(a.data), s.stderrAfterEOF(a.err)), nil, false
	}
	if s.format == "raw" {
		// raw records are cut at the sentinel: the chunk is everything printed for body
		want := body
		if !expectPrinted {
			want = nil
		}
		if !bytes.Equal(a.data, want) {
			if len(a.data) == 0 {
				return "record-missing", "fail", fmt.Sprintf("nothing printed for body %s although the sentinel sent after it was printed", show(body)), nil, true
			}
			c, m, _ := checkRecord("raw", want, a)
			return c, "fail", m, nil, true
		}
		return "", "", "", nil, true
	}
	sc, _, _ := checkRecord(s.format, s.sent, a)
	if !expectPrinted {
		if sc == "" {
			return "", "", "", nil, true
		}
		return "unexpected-record", "fail", fmt.Sprintf("record %s printed for a body that should be filtered", show(a.data)), nil, false
	}
	c, m, nts := checkRecord(s.format, body, a)
	if c != "" && sc == "" {
		return "record-missing", "fail", fmt.Sprintf("no record printed for body %s: the next record is already the sentinel sent after it", show(body)), nil, true
	}
	b, ok := s.next()
	if c != "" {
		// the record of the body is wrong; the session stays usable if the sentinel follows
		if !ok || b.err != nil {
			return c, "fail", m, nil, false
		}
		sc2, _, _ := checkRecord(s.format, s.sent, b)
		return c, "fail", m, nil, sc2 == ""
	}
	if !ok {
		return "no-sentinel", "hang", fmt.Sprintf("sentinel record did not appear within %v", watchdog), nil, false
	}
	if b.err != nil {
		return "stream-broken", "fail", fmt.Sprintf("output stream ended/broke after the record of body %s: %v; stderr: %s", show(body), b.err, s.stderrAfterEOF(b.err)), nil, false
	}
	sc2, sm2, _ := checkRecord(s.format, s.sent, b)
	if sc2 != "" {
		return "record-split-or-merged", "fail", fmt.Sprintf("after the record of body %s the next record is not the sentinel: %s", show(body), sm2), nil, false
	}
	return "", "", "", nts, true
}

func (s *rxSession) stderrAfterEOF(err error) string {
	if err != io.EOF && err != io.ErrUnexpectedEOF {
		return "(macat still running)"
	}
	if s.p.waitExit(2 * time.Second) {
		return s.p.stderrText()
	}
	return "(macat still running)"
}

// runRx runs the bodies through sessions of one (format, pattern), restarting the
// session after a desynchronising failure.  printed(i) says whether body i is expected
// to be printed (subscriptions).
func runRx(st *ekit.Stats, format string, fflag []string, pat rxPattern, extra []string, sent []byte, bodies [][]byte, printed func(int) bool, nt *notes) (fails []rxFailure, completed bool) {
	i := 0
	for i < len(bodies) {
		if st.OutOfTime() {
			st.Cap("time budget exhausted in rx session")
			return fails, false
		}
		s := &rxSession{format: format, fflag: fflag, pat: pat, extra: extra, sent: sent}
		if err := s.open(); err != nil {
			fails = append(fails, rxFailure{idx: i, class: "session-open", kind: "hang", msg: err.Error()})
			return fails, false
		}
		insync := true
		for i < len(bodies) && insync {
			if i%64 == 0 && st.OutOfTime() {
				break
			}
			exp := printed == nil || printed(i)
			class, kind, msg, nts, ok := s.doCase(bodies[i], exp)
			st.Case(2)
			for _, n := range nts {
				st.Count(n)
			}
			if class != "" {
				fails = append(fails, rxFailure{idx: i, class: class, kind: kind, msg: msg})
			} else {
				rxNontrivial(st, format, pat.name, bodies[i])
			}
			insync = ok
			i++
		}
		if insync {
			if u, yes := s.unsolicited(); yes {
				fails = append(fails, rxFailure{idx: i - 1, class: "sent-without-data", kind: "fail", msg: fmt.Sprintf("macat was given no --data / --file, yet its peer received a message from it: %s", u)})
			} else {
				st.Count("receive-only-session-sent-nothing")
			}
		}
		if tr := s.close(); insync && len(tr) > 0 {
			fails = append(fails, rxFailure{idx: i - 1, class: "trailing-output", kind: "fail", msg: fmt.Sprintf("output after the last sentinel: %s", show(tr))})
		}
		if st.OutOfTime() && i < len(bodies) {
			st.Cap("time budget exhausted in rx session")
			return fails, false
		}
	}
	return fails, true
}

func rxNontrivial(st *ekit.Stats, format, pat string, body []byte) {
	st.Nontrivial("printed:" + format + ":" + pat)
	switch n := len(body); {
	case n == 1:
		st.Nontrivial(fmt.Sprintf("%s:byte:%02x", format, body[0]))
	case n == 0 || n >= 254:
		st.Nontrivial(fmt.Sprintf("%s:len:%d", format, n))
	case n <= 4 && format == "quoted":
		if bytes.ContainsAny(body, "\\\"\n\r") {
			st.Nontrivial(fmt.Sprintf("quoted:escape-context:%x", body[:2]))
		}
	}
}

func bodyKey(b []byte) string {
	if len(b) == 0 {
		return "empty"
	}
	if len(b) <= 4 {
		return fmt.Sprintf("%x", b)
	}
	return fmt.Sprintf("len=%d:first=%02x", len(b), b[0])
}

// rxJob runs one (format, pattern, bodies) block, confirms failures 3 times, reports.
func rxJob(st *ekit.Stats, scen, format string, fflag []string, pat rxPattern, extra []string, sent []byte, bodies [][]byte, printed func(int) bool, nt *notes) {
	fails, _ := runRx(st, format, fflag, pat, extra, sent, bodies, printed, nt)
	if len(fails) == 0 {
		return
	}
	// confirm: 3 fresh runs of exactly the failing bodies
	first := map[int]rxFailure{}
	var order []int
	for _, f := range fails {
		if _, ok := first[f.idx]; !ok {
			first[f.idx] = f
			order = append(order, f.idx)
		}
	}
	confirmed := map[int]int{}
	for round := 0; round < 3; round++ {
		var sub [][]byte
		for _, ix := range order {
			sub = append(sub, bodies[ix])
		}
		var pr func(int) bool
		if printed != nil {
			pr = func(j int) bool { return printed(order[j]) }
		}
		again, _ := runRx(st, format, fflag, pat, extra, sent, sub, pr, nt)
		seen := map[int]bool{}
		for _, f := range again {
			if !seen[f.idx] && f.idx < len(order) {
				seen[f.idx] = true
				confirmed[order[f.idx]]++
			}
		}
	}
	for _, ix := range order {
		f := first[ix]
		if confirmed[ix] < 3 {
			st.Count("unconfirmed-flaky")
			nt.add(fmt.Sprintf("unconfirmed (failed %d/3 re-runs): %s %s %s body %s: %s", confirmed[ix], format, pat.name, f.class, show(bodies[ix]), f.msg))
			continue
		}
		args := append([]string{pat.proto, "--connect", "ipc:///tmp/x"}, fflag...)
		switch pat.mode {
		case modeReplied:
			args = append(args, "--data", replyData)
		case modeAsks:
			args = append(args, "--data", askData, "--send-interval", "0")
		}
		args = append(args, extra...)
		input := fmt.Sprintf("macat %s ; peer (%s side listening on ipc:///tmp/x) sends body hex %x", shq(args), pat.name, clip(bodies[ix]))
		if len(bodies[ix]) > 64 {
			input += fmt.Sprintf(" ... (length %d, byte i = %s)", len(bodies[ix]), describeFill(bodies[ix]))
		}
		st.Fail(fmt.Sprintf("%s:%s:%s:%s", scen, format, f.class, bodyKey(bodies[ix])), f.kind, input, "format %s, pattern %s: %s", format, pat.name, f.msg)
	}
}

func clip(b []byte) []byte {
	if len(b) > 64 {
		return b[:64]
	}
	return b
}

func describeFill(b []byte) string {
	if bytes.Equal(b, fillMixed(len(b))) {
		return "byte(i*7+i/256)"
	}
	return fmt.Sprintf("0x%02x", b[0])
}

func init() {
	ekit.Register("C20", ekit.Scenario{Name: "rx-print-formats", Run: scenRxFormats})
	ekit.Register("C20", ekit.Scenario{Name: "rx-format-no-and-subscribe", Run: scenRxMisc})
}

func scenRxFormats(st *ekit.Stats, tier string) {
	var nt notes
	base := append(oneByteBodies(), alphaBodies(2)...)
	base = append(base, alphaBodies(3)...)
	base = append(base, boundaryBodies()...)
	if tier == "thorough" {
		base = append(base, alphaBodies(4)...)
	}
	for _, b := range base {
		if bytes.Contains(b, sentinel) {
			panic("body contains sentinel")
		}
	}
	var jobs []func()
	for fi, f := range formats {
		for pi, pat := range rxPatterns {
			f, pat := f, pat
			fflag := formatFlags[f][(fi+pi)%len(formatFlags[f])]
			// verbosity options must not change what is printed
			extra := [][]string{nil, {"-v"}, {"-q"}, {"--verbose", "--silent"}, {"-vq"}}[(fi*len(rxPatterns)+pi)%5]
			jobs = append(jobs, func() {
				rxJob(st, "rx", f, fflag, pat, extra, sentinel, base, nil, &nt)
			})
		}
	}
	{
		// every 2 byte body (all byte pairs) on pull; quick: the two context sensitive
		// text formats, thorough: every format
		pf := []string{"ascii", "quoted"}
		if tier == "thorough" {
			pf = formats
		}
		for _, f := range pf {
			for c := 0; c < 8; c++ {
				f, c := f, c
				jobs = append(jobs, func() {
					rxJob(st, "rx", f, formatFlags[f][0], rxPatterns[0], nil, sentinel, twoByteBodies(c*8192, (c+1)*8192), nil, &nt)
				})
			}
		}
	}
	st.Sample(map[string]interface{}{"format": "quoted", "pattern": "pull", "body_hex": "5c6e", "sentinel_hex": fmt.Sprintf("%x", sentinel)})
	st.Sample(map[string]interface{}{"format": "msgpack", "pattern": "req-i0", "body": "65536 bytes byte(i*7+i/256)"})
	runJobs(workers(tier), jobs)
	finishNotes(st, &nt, "ascii oracle accepts '.' or the byte itself for bytes >= 0x80 (macat passes 0xa1..0xff except 0xad through, counter ascii-highbyte-passed-through); quoted oracle accepts optional surrounding quotes and raw non-newline bytes that decode to themselves")
}

func workers(tier string) int { return 10 }

var noteMu sync.Mutex

func finishNotes(st *ekit.Stats, nt *notes, base string) {
	noteMu.Lock()
	defer noteMu.Unlock()
	s := base
	nt.mu.Lock()
	k := 0
	for n, c := range nt.m {
		if k++; k > 8 {
			s += " ; ..."
			break
		}
		s += fmt.Sprintf(" ; %s (x%d)", n, c)
	}
	nt.mu.Unlock()
	st.Note = s
}

// scenRxMisc: --format no prints nothing; --subscribe prints the matching messages.
func scenRxMisc(st *ekit.Stats, tier string) {
	var nt notes
	var jobs []func()
	small := append(oneByteBodies(), alphaBodies(2)...)

	// --format no: rep+data answers every request (so the harness knows each message was
	// processed) and stdout must stay empty until the process is killed.
	for _, ff := range [][]string{{"--format", "no"}, {"--format=no"}} {
		ff := ff
		for _, pat := range []rxPattern{rxPatterns[6], rxPatterns[8]} {
			pat := pat
			jobs = append(jobs, func() {
				for attempt := 0; ; attempt++ {
					msg := formatNoRun(st, ff, pat, small)
					if msg == "" {
						st.Nontrivial("format-no:" + pat.name)
						return
					}
					if attempt == 3 {
						st.Fail("rx-misc:format-no:output", "fail", "macat "+shq(append([]string{pat.proto, "--connect", "ipc:///tmp/x", "--data", replyData}, ff...)), "%s", msg)
						return
					}
				}
			})
		}
	}

	// --subscribe a --subscribe '\': bodies starting with 'a' or '\' are printed
	// faithfully.  (Printing a non matching body is only counted, the property does not
	// speak about filtering.)
	subSent := append([]byte("a"), sentinel...)
	match := func(b []byte) bool { return len(b) > 0 && (b[0] == 'a' || b[0] == '\\') }
	var subBodies [][]byte
	for _, b := range append(small, alphaBodies(3)...) {
		if match(b) {
			subBodies = append(subBodies, b)
		}
	}
	for _, f := range formats {
		f := f
		jobs = append(jobs, func() {
			rxJob(st, "rx-subscribe", f, formatFlags[f][0], rxPatterns[1], []string{"--subscribe", "a", "--subscribe=\\"}, subSent, subBodies, nil, &nt)
			st.Nontrivial("subscribe:" + f)
		})
	}
	// non matching bodies: must not disturb the stream (sentinel still arrives as the next record)
	var non [][]byte
	for _, b := range small {
		if !match(b) {
			non = append(non, b)
		}
	}
	jobs = append(jobs, func() {
		fails, _ := runRx(st, "quoted", []string{"-Q"}, rxPatterns[1], []string{"--subscribe", "a", "--subscribe=\\"}, subSent, non, func(int) bool { return false }, &nt)
		for range fails {
			st.Count("subscribe-nonmatching-body-printed-or-stream-disturbed")
		}
	})
	runJobs(workers(tier), jobs)
	finishNotes(st, &nt, "--format no checked on rep/respondent with --data (reply proves processing); subscription filtering itself is not asserted, only counted")
}

// formatNoRun returns "" if nothing was printed for all bodies.
func formatNoRun(st *ekit.Stats, ff []string, pat rxPattern, bodies [][]byte) string {
	s := &rxSession{format: "no", fflag: ff, pat: pat, sent: sentinel}
	if err := s.open(); err != nil {
		return "session: " + err.Error()
	}
	for _, b := range bodies {
		if err := s.deliver(b); err != nil {
			s.close()
			return "deliver: " + err.Error()
		}
		st.Case(1)
	}
	if tr := s.close(); len(tr) > 0 {
		return fmt.Sprintf("--format no printed %s", show(tr))
	}
	return ""
}
