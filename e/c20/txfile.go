package c20

// Scenario tx-file-kinds: "sends exactly the bytes given by --file" for everything a path may
// name, not only a regular file whose size stat() reports: a FIFO the harness writes into, a
// /proc file (stat size 0), /dev/stdin fed from a pipe or redirected from a file, a symbolic
// link, the empty file.  The peer receives exactly the file's bytes, --count times.
//
// What the file "holds" is decided by the harness alone: for the FIFO and the pipe it is what
// the harness wrote before closing its end; a /proc file is read by the harness before and
// after the macat run and the case only counts when both reads agree.

import (
	"bytes"
	"fmt"
	"os"
	"syscall"
	"time"

	"go.nanomsg.org/mangos/v3/ve/ekit"
)

var fileKinds = []string{"regular", "empty", "symlink", "fifo", "stdin-pipe", "stdin-file", "proc"}

var procFiles = []string{"/proc/sys/kernel/ostype", "/proc/version", "/proc/sys/kernel/osrelease"}

// writeChunks writes data in two pieces (the reader must not stop at the first read).
func writeChunks(w *os.File, data []byte) {
	cut := len(data) * 3 / 7
	if _, err := w.Write(data[:cut]); err == nil {
		_, _ = w.Write(data[cut:])
	}
	_ = w.Close()
}

// prepareFile makes what --file will name for the case.  It returns the path to pass, the
// standard input to give macat (or nil) and a cleanup to run after macat has exited.
func prepareFile(c txCase) (path string, stdin *os.File, cleanup func(), err error) {
	f := sockPath("file")
	cleanup = func() {}
	switch c.fkind {
	case "", "regular", "empty":
		if err = os.WriteFile(f, c.data, 0o644); err != nil {
			return
		}
		return f, nil, func() { _ = os.Remove(f) }, nil
	case "symlink":
		t := f + ".target"
		if err = os.WriteFile(t, c.data, 0o644); err != nil {
			return
		}
		if err = os.Symlink(t, f); err != nil {
			_ = os.Remove(t)
			return
		}
		return f, nil, func() { _ = os.Remove(f); _ = os.Remove(t) }, nil
	case "fifo":
		if err = syscall.Mkfifo(f, 0o600); err != nil {
			err = fmt.Errorf("mkfifo: %v", err)
			return
		}
		wdone := make(chan struct{})
		go func() {
			defer close(wdone)
			// blocks until somebody (macat) opens the FIFO for reading
			w, err := os.OpenFile(f, os.O_WRONLY, 0)
			if err != nil {
				return
			}
			writeChunks(w, c.data)
		}()
		return f, nil, func() {
			// if macat never opened the FIFO the writer is still waiting in open(2): release it
			select {
			case <-wdone:
			default:
				if r, err := os.OpenFile(f, os.O_RDONLY|syscall.O_NONBLOCK, 0); err == nil {
					select {
					case <-wdone:
					case <-time.After(5 * time.Second):
					}
					_ = r.Close()
				}
			}
			_ = os.Remove(f)
		}, nil
	case "stdin-pipe":
		r, w, perr := os.Pipe()
		if perr != nil {
			err = perr
			return
		}
		// the writer ends with EPIPE once every read end is closed (macat gone)
		go writeChunks(w, c.data)
		return "/dev/stdin", r, cleanup, nil
	case "stdin-file":
		if err = os.WriteFile(f, c.data, 0o644); err != nil {
			return
		}
		r, oerr := os.Open(f)
		if oerr != nil {
			err = oerr
			return
		}
		return "/dev/stdin", r, func() { _ = os.Remove(f) }, nil
	case "proc":
		return c.fpath, nil, cleanup, nil
	}
	err = fmt.Errorf("unknown file kind %q", c.fkind)
	return
}

func txFileJob(st *ekit.Stats, c txCase, nt *notes) func() {
	return func() {
		if st.OutOfTime() {
			st.Cap("time budget exhausted")
			return
		}
		what := c.fkind
		if c.fkind == "proc" {
			what = c.fpath
		}
		// run evaluates the case once; stable = false when a /proc file changed meanwhile
		run := func() (r txResult, cc txCase, stable bool) {
			cc = c
			if c.fkind == "proc" {
				b, err := os.ReadFile(c.fpath)
				if err != nil {
					return txResult{herr: "unreadable"}, cc, false
				}
				cc.data = b
			}
			r = runTx(cc)
			if c.fkind == "proc" {
				b, err := os.ReadFile(c.fpath)
				if err != nil || !bytes.Equal(b, cc.data) {
					return r, cc, false
				}
			}
			return r, cc, true
		}
		r, cc, stable := run()
		if !stable {
			st.Count("proc-file-unavailable-or-changing")
			return
		}
		st.Case(c.n)
		class, msg := checkTx(cc, r, c.n)
		if class == "" {
			st.Nontrivial(fmt.Sprintf("%s:%s:%s:len=%d:n=%d", c.pat.name, c.src, what, len(cc.data), c.n))
			st.Count("file-kind-" + c.fkind)
			if c.fkind != "regular" && c.fkind != "empty" && c.fkind != "symlink" && c.fkind != "stdin-file" {
				st.Count("size-not-known-from-stat")
			}
			return
		}
		fails := 0
		for i := 0; i < 3; i++ {
			r2, c2, ok := run()
			if !ok {
				continue
			}
			if k, _ := checkTx(c2, r2, c.n); k != "" {
				fails++
			}
		}
		if fails < 3 {
			st.Count("unconfirmed-flaky")
			nt.add(fmt.Sprintf("unconfirmed (failed %d/3 re-runs): macat %s: %s", fails, shq(r.args), msg))
			return
		}
		kind := "fail"
		if class == "hang" {
			kind = "hang"
		}
		sig := fmt.Sprintf("tx-file:%s:%s:%s:%s", class, c.pat.name, c.fkind, bodyKey(cc.data))
		if class == "count" {
			sig += fmt.Sprintf(":n=%d:got=%d", c.n, len(r.got))
		}
		input := "macat " + shq(r.args) + " ; peer: harness " + c.pat.name + " counterpart ; "
		switch c.fkind {
		case "fifo":
			input += fmt.Sprintf("the path is a FIFO into which the harness writes %d bytes (two writes) and which it then closes", len(cc.data))
		case "stdin-pipe":
			input += fmt.Sprintf("standard input is a pipe into which the harness writes %d bytes (two writes) and which it then closes", len(cc.data))
		case "stdin-file":
			input += fmt.Sprintf("standard input is redirected from a regular file of %d bytes", len(cc.data))
		case "proc":
			input += fmt.Sprintf("the harness read %d bytes from the same path before and after the run: %q", len(cc.data), clip(cc.data))
		case "symlink":
			input += fmt.Sprintf("the path is a symbolic link to a regular file of %d bytes", len(cc.data))
		default:
			input += fmt.Sprintf("regular file of %d bytes", len(cc.data))
		}
		input += fmt.Sprintf(" ; content hex %x", clip(cc.data))
		st.Fail(sig, kind, input, "pattern %s, --file names %s: %s", c.pat.name, what, msg)
	}
}

func init() {
	ekit.Register("C20", ekit.Scenario{Name: "tx-file-kinds", Run: scenTxFileKinds})
}

func patByName(n string) txPattern {
	for _, p := range txPatterns {
		if p.name == n {
			return p
		}
	}
	panic("no tx pattern " + n)
}

func scenTxFileKinds(st *ekit.Stats, tier string) {
	var nt notes
	var jobs []func()
	pats := []txPattern{patByName("push"), patByName("pair-i"), patByName("req-i")}
	if tier == "thorough" {
		pats = txPatterns
	}
	for _, pat := range pats {
		for _, fk := range fileKinds {
			var bodies [][]byte
			switch fk {
			case "empty":
				bodies = [][]byte{{}}
			case "proc":
				bodies = [][]byte{nil}
			default:
				// 700: every byte value, in two writes; 70000: more than a pipe holds (64 KiB), so the
				// reader has to keep reading until end of file
				bodies = [][]byte{fillMixed(700), fillMixed(70000)}
				if fk == "fifo" || fk == "stdin-pipe" {
					bodies = append(bodies, []byte{}, []byte("x")) // nothing written before the close
				}
			}
			paths := []string{""}
			if fk == "proc" {
				paths = procFiles
			}
			for _, fp := range paths {
				for _, d := range bodies {
					if pat.name != "push" && len(d) > 700 && tier != "thorough" {
						continue
					}
					for _, n := range []int{1, 2, 3} {
						src := "file-sep"
						if n == 2 {
							src = "F-sep"
						}
						jobs = append(jobs, txFileJob(st, txCase{pat: pat, src: src, data: d, n: n, fkind: fk, fpath: fp}, &nt))
					}
				}
			}
		}
	}
	st.Sample(map[string]interface{}{"pattern": "push", "args": "--push --connect ipc://... --file <fifo> --count=2", "file": "a FIFO; the harness writes 300 + 400 bytes and closes it", "expect": "2 messages of exactly those 700 bytes"})
	st.Sample(map[string]interface{}{"pattern": "req-i", "args": "--req --connect ipc://... --file /proc/version --count 3 --send-interval 10ms", "expect": "3 requests holding what the harness itself reads from /proc/version"})
	runJobs(txWorkers(tier), jobs)
	finishNotes(st, &nt, "--file naming a regular file, the empty file, a symbolic link, a FIFO, /dev/stdin (pipe and redirected file) and /proc files; the expected bytes are what the harness wrote (FIFO, pipe) or read itself before and after the run (/proc)")
}
