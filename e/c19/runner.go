package c19

import (
	"bufio"
	"bytes"
	"encoding/json"
	"fmt"
	"io"
	"os"
	"os/exec"
	"sort"
	"strconv"
	"strings"
	"sync"
	"sync/atomic"
	"time"

	"go.nanomsg.org/mangos/v3/ve/ekit"
)

// A scenario is a finite, indexable list of cases.  Cases are evaluated by worker
// subprocesses (this same binary, selected by the VE_C19_WORKER environment variable):
// the parent hands out case indices over the worker's stdin, the worker answers with
//
//	P <idx> <sub> <label>      before each sub-case (label = the exact call, no line numbers)
//	R <json caseResult>        when the case is finished
//
// If the worker dies (panic in a mangos background goroutine, fatal runtime error) or makes
// no progress for stallLimit, the last P line names the guilty sub-case; it is recorded as a
// violation and the case is re-run in a fresh worker with that sub-case skipped.
type scenario struct {
	name   string
	ncases func(tier string) int
	run    func(tier string, idx int, w *wctx)
	par    int // worker processes
	// huge reports cases that may allocate a 2^31 entry queue (see hugeBegin): they run
	// alone in a fresh worker with the garbage collector off.
	huge func(tier string, idx int) bool
}

var scenarios []*scenario

func scenarioByName(n string) *scenario {
	for _, s := range scenarios {
		if s.name == n {
			return s
		}
	}
	return nil
}

type failure struct {
	Sig   string `json:"sig"`
	Kind  string `json:"kind"`
	Input string `json:"input"`
	Msg   string `json:"msg"`
}

type caseResult struct {
	Idx        int            `json:"idx"`
	Sub        int            `json:"sub"`
	Ops        int            `json:"ops"`
	Nontrivial []string       `json:"nontrivial,omitempty"`
	Counts     map[string]int `json:"counts,omitempty"`
	Fails      []failure      `json:"fails,omitempty"`
	Sample     interface{}    `json:"sample,omitempty"`
	SetupErr   string         `json:"setup_err,omitempty"`
	Exit       bool           `json:"exit,omitempty"` // the worker exits after this case (see hugeBegin)
}

// wctx is what a case sees inside the worker.
type wctx struct {
	res  *caseResult
	skip map[int]bool
	sub  int
	out  *bufio.Writer
}

// begin announces a sub-case; it returns false if this sub-case killed a previous worker
// and must be skipped.
func (w *wctx) begin(label string) bool {
	i := w.sub
	w.sub++
	w.res.Sub++
	if w.skip[i] {
		return false
	}
	fmt.Fprintf(w.out, "P %d %d %s\n", w.res.Idx, i, label)
	_ = w.out.Flush()
	return true
}

func (w *wctx) fail(sig, kind, input, format string, a ...interface{}) {
	for _, f := range w.res.Fails {
		if f.Sig == sig && f.Input == input {
			return
		}
	}
	w.res.Fails = append(w.res.Fails, failure{Sig: sig, Kind: kind, Input: input, Msg: fmt.Sprintf(format, a...)})
}

func (w *wctx) nontrivial(key string) { w.res.Nontrivial = append(w.res.Nontrivial, key) }

func (w *wctx) count(name string) {
	if w.res.Counts == nil {
		w.res.Counts = map[string]int{}
	}
	w.res.Counts[name]++
}

func (w *wctx) setupErr(err error) {
	w.count("setup-error")
	if w.res.SetupErr == "" {
		w.res.SetupErr = firstLine(err.Error())
	}
}

// ---------------------------------------------------------------------------------------
// worker side

const (
	envWorker = "VE_C19_WORKER"
	envTier   = "VE_C19_TIER"
	envTmp    = "VE_C19_TMP"
)

func init() {
	// one init for the whole package: register first, then (in a worker) never return
	registerAll()
	if n := os.Getenv(envWorker); n != "" {
		workerMain(n)
		os.Exit(0)
	}
}

func workerMain(name string) {
	sc := scenarioByName(name)
	if sc == nil {
		fmt.Fprintln(os.Stderr, "c19 worker: no scenario", name)
		os.Exit(3)
	}
	tier := os.Getenv(envTier)
	if t := os.Getenv(envTmp); t != "" {
		tmpDir = t
	}
	in := bufio.NewScanner(os.Stdin)
	in.Buffer(make([]byte, 1<<16), 1<<20)
	out := bufio.NewWriterSize(os.Stdout, 1<<16)
	for in.Scan() {
		f := strings.Fields(in.Text())
		if len(f) < 2 || f[0] != "RUN" {
			continue
		}
		idx, _ := strconv.Atoi(f[1])
		skip := map[int]bool{}
		if len(f) > 2 {
			for _, s := range strings.Split(f[2], ",") {
				if n, err := strconv.Atoi(s); err == nil {
					skip[n] = true
				}
			}
		}
		w := &wctx{res: &caseResult{Idx: idx}, skip: skip, out: out}
		ops0 := atomic.LoadInt64(&opCount)
		sc.run(tier, idx, w)
		w.res.Ops = int(atomic.LoadInt64(&opCount) - ops0)
		w.res.Exit = workerMustExit
		b, err := json.Marshal(w.res)
		if err != nil {
			w.res.Sample = nil
			b, _ = json.Marshal(w.res)
		}
		fmt.Fprintf(out, "R %s\n", b)
		_ = out.Flush()
		if workerMustExit {
			os.Exit(0)
		}
	}
}

// ---------------------------------------------------------------------------------------
// parent side

const stallLimit = 200 * time.Second

type capBuf struct {
	mu sync.Mutex
	b  bytes.Buffer
}

func (c *capBuf) Write(p []byte) (int, error) {
	c.mu.Lock()
	if c.b.Len() < 256<<10 {
		c.b.Write(p)
	}
	c.mu.Unlock()
	return len(p), nil
}
func (c *capBuf) reset() { c.mu.Lock(); c.b.Reset(); c.mu.Unlock() }
func (c *capBuf) String() string {
	c.mu.Lock()
	defer c.mu.Unlock()
	return c.b.String()
}

type worker struct {
	sc    *scenario
	tier  string
	cmd   *exec.Cmd
	in    io.WriteCloser
	lines chan string
	errb  *capBuf
}

func startWorker(sc *scenario, tier string, gcOff bool) (*worker, error) {
	w := &worker{sc: sc, tier: tier, errb: &capBuf{}, lines: make(chan string, 256)}
	w.cmd = exec.Command(os.Args[0])
	w.cmd.Env = append(os.Environ(), envWorker+"="+sc.name, envTier+"="+tier, envTmp+"="+ekit.Tmp)
	if gcOff {
		w.cmd.Env = append(w.cmd.Env, "GOGC=off")
	}
	w.cmd.Stderr = w.errb
	var err error
	if w.in, err = w.cmd.StdinPipe(); err != nil {
		return nil, err
	}
	out, err := w.cmd.StdoutPipe()
	if err != nil {
		return nil, err
	}
	if err = w.cmd.Start(); err != nil {
		return nil, err
	}
	go func() {
		s := bufio.NewScanner(out)
		s.Buffer(make([]byte, 1<<16), 64<<20)
		for s.Scan() {
			w.lines <- s.Text()
		}
		close(w.lines)
	}()
	return w, nil
}

func (w *worker) stop() {
	if w == nil || w.cmd == nil {
		return
	}
	_ = w.in.Close()
	done := make(chan struct{})
	go func() { _ = w.cmd.Wait(); close(done) }()
	select {
	case <-done:
	case <-time.After(3 * time.Second):
		_ = w.cmd.Process.Kill()
		<-done
	}
}

func (w *worker) kill() {
	_ = w.cmd.Process.Kill()
	_ = w.cmd.Wait()
}

type crash struct {
	sub   int
	label string
	kind  string // "panic" or "hang"
	msg   string
}

// runJob evaluates one case; on a dead or stalled worker it returns a crash.
// impatience: a call with the value 2^31 normally returns within milliseconds; in about one
// process out of a hundred the Go allocator has to zero the 16 GiB (see hugeBegin), which
// takes tens of seconds.  The worker brackets such calls with "H"/"h" lines; a parent that is
// impatient kills a worker that stays between the two for longer than this and tries the
// case again in a fresh process.  The last attempt is always patient, so a call that really
// hangs is still found by the worker's own watchdog.
const hugeImpatience = 3 * time.Second

var errImpatient = &crash{sub: -2}

func (w *worker) runJob(idx int, skip []int) (*caseResult, *crash) {
	return w.runJobP(idx, skip, false)
}

func (w *worker) runJobP(idx int, skip []int, impatient bool) (*caseResult, *crash) {
	w.errb.reset()
	ss := make([]string, len(skip))
	for i, s := range skip {
		ss[i] = strconv.Itoa(s)
	}
	if _, err := fmt.Fprintf(w.in, "RUN %d %s\n", idx, strings.Join(ss, ",")); err != nil {
		w.kill()
		return nil, &crash{sub: -1, kind: "panic", msg: "worker not accepting input: " + err.Error() + "; stderr: " + excerpt(w.errb.String())}
	}
	cur := &crash{sub: -1}
	timer := time.NewTimer(stallLimit)
	defer timer.Stop()
	var hugeQ <-chan time.Time
	for {
		select {
		case <-hugeQ:
			w.kill()
			return nil, errImpatient
		case ln, ok := <-w.lines:
			if !ok {
				_ = w.cmd.Wait()
				cur.kind = "panic"
				cur.msg = "worker process died: " + excerpt(w.errb.String())
				return nil, cur
			}
			if !timer.Stop() {
				select {
				case <-timer.C:
				default:
				}
			}
			timer.Reset(stallLimit)
			switch {
			case ln == "H":
				if impatient {
					hugeQ = time.After(hugeImpatience)
				}
			case ln == "h":
				hugeQ = nil
			case strings.HasPrefix(ln, "P "):
				f := strings.SplitN(ln, " ", 4)
				if len(f) == 4 {
					cur.sub, _ = strconv.Atoi(f[2])
					cur.label = f[3]
				}
			case strings.HasPrefix(ln, "R "):
				var r caseResult
				if err := json.Unmarshal([]byte(ln[2:]), &r); err != nil {
					w.kill()
					return nil, &crash{sub: -1, kind: "panic", msg: "bad result line: " + err.Error()}
				}
				return &r, nil
			}
		case <-timer.C:
			w.kill()
			cur.kind = "hang"
			cur.msg = fmt.Sprintf("worker made no progress for %v", stallLimit)
			return nil, cur
		}
	}
}

// excerpt keeps the informative part of a Go crash dump: the panic / fatal line and the
// first mangos frames.
func excerpt(s string) string {
	var keep []string
	frames := 0
	for _, ln := range strings.Split(s, "\n") {
		t := strings.TrimSpace(ln)
		switch {
		case strings.HasPrefix(t, "panic:"), strings.HasPrefix(t, "fatal error:"), strings.HasPrefix(t, "runtime: out of memory"):
			keep = append(keep, t)
		case strings.HasPrefix(t, "go.nanomsg.org/mangos/v3/") && !strings.Contains(t, "/ve/") && frames < 4:
			if i := strings.IndexByte(t, '('); i > 0 {
				t = t[:i]
			}
			keep = append(keep, "at "+t)
			frames++
		}
	}
	if len(keep) == 0 {
		if len(s) > 400 {
			s = s[:400]
		}
		return strings.TrimSpace(s)
	}
	return strings.Join(keep, "; ")
}

var hugeSem = make(chan struct{}, 2)

type caseOutcome struct {
	idx     int
	res     *caseResult // merged
	crashes []failure
	intern  string
}

// evalCase runs one case to completion, skipping sub-cases that kill the worker.
func evalCase(sc *scenario, tier string, wp **worker, idx int) caseOutcome {
	o := caseOutcome{idx: idx}
	var skip []int
	huge := sc.huge != nil && sc.huge(tier, idx)
	impatientLeft := 3
	if huge {
		// private one-case worker; at most hugeSem of them at a time
		hugeSem <- struct{}{}
		var own *worker
		wp = &own
		defer func() { own.stop(); <-hugeSem }()
	}
	for attempt := 0; attempt < 40; attempt++ {
		if *wp == nil {
			w, err := startWorker(sc, tier, huge)
			if err != nil {
				o.intern = "cannot start worker: " + err.Error()
				return o
			}
			*wp = w
		}
		r, c := (*wp).runJobP(idx, skip, huge && impatientLeft > 0)
		if c == nil {
			o.res = r
			if r.Exit {
				(*wp).stop()
				*wp = nil
			}
			return o
		}
		*wp = nil
		if c == errImpatient {
			impatientLeft--
			continue
		}
		if c.sub < 0 {
			o.intern = fmt.Sprintf("case %d: worker failed before any sub-case: %s", idx, c.msg)
			return o
		}
		prefix := "crash:"
		if c.kind == "hang" {
			prefix = "stall:"
		}
		o.crashes = append(o.crashes, failure{Sig: prefix + c.label, Kind: c.kind,
			Input: fmt.Sprintf("scenario=%s case=%d sub=%d: %s", sc.name, idx, c.sub, c.label), Msg: c.msg})
		skip = append(skip, c.sub)
	}
	o.intern = fmt.Sprintf("case %d: too many worker crashes", idx)
	return o
}

func (o caseOutcome) allFails() []failure {
	var f []failure
	f = append(f, o.crashes...)
	if o.res != nil {
		f = append(f, o.res.Fails...)
	}
	return f
}

// runScenario is the ekit Scenario.Run body.
func runScenario(sc *scenario, st *ekit.Stats, tier string) {
	n := sc.ncases(tier)
	par := sc.par
	if par <= 0 {
		par = 12
	}
	if par > n {
		par = n
	}
	var next int64 = -1
	outs := make([]caseOutcome, n)
	done := make([]bool, n)
	var wg sync.WaitGroup
	for i := 0; i < par; i++ {
		wg.Add(1)
		go func() {
			defer wg.Done()
			var w *worker
			defer func() { w.stop() }()
			for {
				if st.OutOfTime() {
					return
				}
				idx := int(atomic.AddInt64(&next, 1))
				if idx >= n {
					return
				}
				t0 := time.Now()
				outs[idx] = evalCase(sc, tier, &w, idx)
				done[idx] = true
				if d := time.Since(t0); d > 3*time.Second && os.Getenv("VE_C19_DEBUG") != "" {
					fmt.Fprintf(os.Stderr, "c19 debug: %s case %d took %v\n", sc.name, idx, d)
				}
			}
		}()
	}
	wg.Wait()

	var interns []string
	setupErrs := 0
	var setupMsg string
	var suspects []int
	ndone := 0
	for idx := 0; idx < n; idx++ {
		if !done[idx] {
			continue
		}
		ndone++
		o := outs[idx]
		if o.intern != "" {
			interns = append(interns, o.intern)
		}
		if r := o.res; r != nil {
			per := 0
			if r.Sub > 0 {
				per = r.Ops / r.Sub
			}
			for i := 0; i < r.Sub; i++ {
				ops := per
				if i == 0 {
					ops = r.Ops - per*(r.Sub-1)
				}
				st.Case(ops)
			}
			for _, k := range r.Nontrivial {
				st.Nontrivial(k)
			}
			for k, c := range r.Counts {
				for i := 0; i < c; i++ {
					st.Count(k)
				}
				if k == "setup-error" {
					setupErrs += c
					setupMsg = r.SetupErr
				}
			}
			if r.Sample != nil {
				st.Sample(r.Sample)
			}
		}
		if len(o.allFails()) > 0 {
			suspects = append(suspects, idx)
		}
	}
	if ndone < n {
		st.Cap(fmt.Sprintf("out of time after %d of %d cases", ndone, n))
	}
	if setupErrs > 0 {
		st.Cap(fmt.Sprintf("%d sub-cases could not be set up (e.g. %s)", setupErrs, setupMsg))
	}

	// Every suspected failure is replayed three times in fresh worker processes (fresh
	// objects); only signatures that fail in all three replays are reported.
	type conf struct {
		idx  int
		hits map[string]int
	}
	confs := make([]conf, len(suspects))
	var cnext int64 = -1
	cpar := 24
	if cpar > len(suspects) {
		cpar = len(suspects)
	}
	var cwg sync.WaitGroup
	for i := 0; i < cpar; i++ {
		cwg.Add(1)
		go func() {
			defer cwg.Done()
			for {
				k := int(atomic.AddInt64(&cnext, 1))
				if k >= len(suspects) {
					return
				}
				c := conf{idx: suspects[k], hits: map[string]int{}}
				var mu sync.Mutex
				var rwg sync.WaitGroup
				for rep := 0; rep < 3; rep++ {
					rwg.Add(1)
					go func() {
						defer rwg.Done()
						var w *worker
						o := evalCase(sc, tier, &w, c.idx)
						w.stop()
						seen := map[string]bool{}
						mu.Lock()
						for _, f := range o.allFails() {
							if !seen[f.Sig+"\x00"+f.Input] {
								seen[f.Sig+"\x00"+f.Input] = true
								c.hits[f.Sig+"\x00"+f.Input]++
							}
						}
						mu.Unlock()
					}()
				}
				rwg.Wait()
				confs[k] = c
			}
		}()
	}
	cwg.Wait()
	for k, idx := range suspects {
		fs := outs[idx].allFails()
		sort.SliceStable(fs, func(i, j int) bool { return fs[i].Sig < fs[j].Sig })
		for _, f := range fs {
			h := confs[k].hits[f.Sig+"\x00"+f.Input]
			if h == 3 {
				st.Fail(f.Sig, f.Kind, f.Input, "%s (reproduced in 3/3 fresh replays)", f.Msg)
			} else {
				st.Count("unconfirmed-failure")
				if len(st.Note) < 4000 {
					st.Note += fmt.Sprintf("[not reported, failed in only %d of 3 replays: %s | %s | %s] ", h, f.Sig, f.Input, f.Msg)
				}
			}
		}
	}
	if len(interns) > 0 {
		if len(interns) > 3 {
			interns = append(interns[:3], fmt.Sprintf("... and %d more", len(interns)-3))
		}
		panic("c19 harness: " + strings.Join(interns, " | "))
	}
}

func register(sc *scenario) {
	scenarios = append(scenarios, sc)
	ekit.Register("C19", ekit.Scenario{Name: sc.name, Run: func(st *ekit.Stats, tier string) { runScenario(sc, st, tier) }})
}
