package c19

import (
	"fmt"
	"time"

	"go.nanomsg.org/mangos/v3"
)

// The mover answers one question about a connected (object, cooked peer) pair: can the
// object still move a message in every direction its pattern has?  It retries with fresh
// tags until a generous deadline, so lossy patterns (PUB, BUS, STAR, SURVEYOR), stale
// queued messages and reconnects never make it fail on correct code; wall-clock only
// bounds how long we are willing to wait.

const stepDeadline = 150 * time.Millisecond

type moveRes struct {
	attempts int // loop iterations used (1 = everything moved at the first try)
	ok     bool
	hung   string // a call that did not return within the watchdog
	panic  string
	detail string
}

func (c *cpair) setStepDeadlines() {
	for _, s := range []mangos.Socket{c.obj, c.peer} {
		s := s
		guard(func() {
			_ = s.SetOption(mangos.OptionRecvDeadline, stepDeadline)
			_ = s.SetOption(mangos.OptionSendDeadline, stepDeadline)
		})
	}
}

func (c *cpair) tag() string {
	c.seq++
	return fmt.Sprintf("c19-%d", c.seq)
}

// rawHeader returns the header a raw socket of this protocol needs on a fresh message.
func (c *cpair) rawHeader() []byte {
	switch c.p.name {
	case "xpair1", "xstar":
		return []byte{0, 0, 0, 0}
	case "xreq", "xsurveyor":
		c.seq++
		n := uint32(0x80000000) | uint32(c.seq)
		return []byte{byte(n >> 24), byte(n >> 16), byte(n >> 8), byte(n)}
	}
	return nil
}

type callErr struct {
	g   guardRes
	err error
}

func (e callErr) fatal() bool { return e.g.bad() }

// objSend sends a fresh message from the object.
func (c *cpair) objSend(body string) callErr {
	var r callErr
	if !c.p.raw {
		r.g = guard(func() { r.err = c.obj.Send([]byte(body)) })
		return r
	}
	m := mangos.NewMessage(len(body))
	m.Body = append(m.Body, body...)
	m.Header = append(m.Header, c.rawHeader()...)
	r.g = guard(func() { r.err = c.obj.SendMsg(m) })
	return r
}

// objReply answers the request in req (server style patterns).
func (c *cpair) objReply(req *mangos.Message, body string) callErr {
	var r callErr
	if !c.p.raw {
		r.g = guard(func() { r.err = c.obj.Send([]byte(body)) })
		return r
	}
	req.Body = append(req.Body[:0], body...)
	r.g = guard(func() { r.err = c.obj.SendMsg(req) })
	return r
}

// recvUntil receives on s until a message with the given body arrives.
func recvUntil(s mangos.Socket, body string) (*mangos.Message, callErr) {
	for i := 0; i < 2000; i++ {
		var m *mangos.Message
		var r callErr
		r.g = guard(func() { m, r.err = s.RecvMsg() })
		if r.g.bad() || r.err != nil {
			return nil, r
		}
		if string(m.Body) == body {
			return m, r
		}
		m.Free()
	}
	return nil, callErr{err: fmt.Errorf("2000 stale messages")}
}

func peerSend(s mangos.Socket, body string) callErr {
	var r callErr
	r.g = guard(func() { r.err = s.Send([]byte(body)) })
	return r
}

// move tries until total has elapsed.
func (c *cpair) move(total time.Duration) moveRes {
	c.setStepDeadlines()
	dl := time.Now().Add(total)
	var res moveRes
	okOut, okIn := false, false // object->peer, peer->object
	fatal := func(what string, e callErr) bool {
		if e.g.hung {
			res.hung = what
			return true
		}
		if e.g.panicked {
			res.panic = what + ": " + e.g.pval
			return true
		}
		return false
	}
	note := func(what string, e callErr) {
		res.detail = what + " => " + errName(e.err)
	}
	for attempt := 0; ; attempt++ {
		res.attempts = attempt + 1
		switch c.p.style {
		case stSym, stSendOnly, stRecvOnly:
			if c.p.style != stRecvOnly && !okOut {
				t := c.tag()
				e := c.objSend(t)
				if fatal(c.p.name+".Send", e) {
					return res
				}
				// the peer always receives (and thereby drains whatever is queued), also
				// when the send failed because a queue is still full of older messages
				m, e2 := recvUntil(c.peer, t)
				if fatal(c.p.peer+"(peer).Recv", e2) {
					return res
				}
				switch {
				case m != nil:
					m.Free()
					okOut = true
				case e.err != nil:
					note(c.p.name+".Send", e)
				default:
					note("object sent, peer Recv", e2)
				}
			}
			if c.p.style != stSendOnly && !okIn {
				t := c.tag()
				e := peerSend(c.peer, t)
				if fatal(c.p.peer+"(peer).Send", e) {
					return res
				}
				m, e2 := recvUntil(c.obj, t)
				if fatal(c.p.name+".Recv", e2) {
					return res
				}
				switch {
				case m != nil:
					m.Free()
					okIn = true
				case e.err != nil:
					note("peer Send", e)
				default:
					note("peer sent, "+c.p.name+".Recv", e2)
				}
			}
			if (okOut || c.p.style == stRecvOnly) && (okIn || c.p.style == stSendOnly) {
				res.ok = true
				return res
			}
		case stClient:
			t := c.tag()
			e := c.objSend(t)
			if fatal(c.p.name+".Send", e) {
				return res
			}
			m, e2 := recvUntil(c.peer, t) // always: drains the peer side
			if fatal(c.p.peer+"(peer).Recv", e2) {
				return res
			}
			if m == nil {
				if e.err != nil {
					note(c.p.name+".Send", e)
				} else {
					note("object sent, peer Recv", e2)
				}
				break
			}
			m.Free()
			e = peerSend(c.peer, t+"r")
			if fatal(c.p.peer+"(peer).Send", e) {
				return res
			}
			if e.err != nil {
				note("peer reply", e)
				break
			}
			m, e = recvUntil(c.obj, t+"r")
			if fatal(c.p.name+".Recv", e) {
				return res
			}
			if m == nil {
				note("peer replied, "+c.p.name+".Recv", e)
				break
			}
			m.Free()
			res.ok = true
			return res
		case stServer:
			t := c.tag()
			e := peerSend(c.peer, t)
			if fatal(c.p.peer+"(peer).Send", e) {
				return res
			}
			m, e2 := recvUntil(c.obj, t) // always: drains the object side
			if fatal(c.p.name+".Recv", e2) {
				return res
			}
			if m == nil {
				if e.err != nil {
					note("peer Send", e)
				} else {
					note("peer sent, "+c.p.name+".Recv", e2)
				}
				break
			}
			e = c.objReply(m, t+"r")
			if fatal(c.p.name+".Send(reply)", e) {
				return res
			}
			if e.err != nil {
				note(c.p.name+".Send(reply)", e)
				break
			}
			m, e = recvUntil(c.peer, t+"r")
			if fatal(c.p.peer+"(peer).Recv", e) {
				return res
			}
			if m == nil {
				note("object replied, peer Recv", e)
				break
			}
			m.Free()
			res.ok = true
			return res
		}
		if time.Now().After(dl) {
			return res
		}
		time.Sleep(10 * time.Millisecond)
	}
}

// load pushes k filler messages in every direction the pattern has, nobody receives them.
func (c *cpair) load(k int) moveRes {
	c.setStepDeadlines()
	var res moveRes
	for i := 0; i < k; i++ {
		if c.p.style == stSym || c.p.style == stServer || c.p.style == stRecvOnly {
			e := peerSend(c.peer, "filler")
			if e.g.hung {
				res.hung = "peer.Send"
				return res
			}
		}
		if c.p.style == stSym || c.p.style == stClient || c.p.style == stSendOnly {
			e := c.objSend("filler")
			if e.g.hung {
				res.hung = c.p.name + ".Send"
				return res
			}
			if e.g.panicked {
				res.panic = c.p.name + ".Send: " + e.g.pval
				return res
			}
		}
	}
	time.Sleep(60 * time.Millisecond) // let the protocol goroutines run into the full queues
	res.ok = true
	return res
}
