package c19

import (
	"fmt"
	"time"

	"go.nanomsg.org/mangos/v3"
)

// ---------------------------------------------------------------------------------------
// operations a pattern does not have
//
// case A = (protocol, before | after connecting): Recv on send-only patterns, Send on
// receive-only patterns, OpenContext on patterns without contexts => ErrProtoOp, and the
// socket still works afterwards.
// case B = Device(s1, s2) for every ordered pair of the 24 constructors plus the nil
// combinations: the designated error follows from device.go's documentation (ErrClosed for
// no socket at all, ErrBadProto for protocols that are not each other's peer, ErrNotRaw for a
// cooked socket), and after a refused Device both sockets still work.

type unsupCase struct {
	kind   string // "ops" or "device"
	p, p2  *proto // p2 nil = nil socket; p nil too = Device(nil,nil)
	state  string
	nilPos int // device with one nil: 1 = first arg nil, 2 = second arg nil
}

var unsupCache []unsupCase

func unsupCases() []unsupCase {
	if unsupCache != nil {
		return unsupCache
	}
	var cs []unsupCase
	for _, p := range protos {
		for _, st := range bothStates {
			cs = append(cs, unsupCase{kind: "ops", p: p, state: st})
		}
	}
	cs = append(cs, unsupCase{kind: "device"})
	for _, p := range protos {
		cs = append(cs, unsupCase{kind: "device", p: p, nilPos: 1}, unsupCase{kind: "device", p: p, nilPos: 2})
		for _, p2 := range protos {
			cs = append(cs, unsupCase{kind: "device", p: p, p2: p2})
		}
	}
	unsupCache = cs
	return cs
}

// stillWorks: a normal operation succeeds on the socket.
func stillWorks(c *cpair, s mangos.Socket) (bool, string) {
	if c != nil {
		r := c.move(10 * time.Second)
		if r.ok {
			return true, ""
		}
		return false, fmt.Sprintf("no message moves any more (hung=%q panic=%q last=%s)", r.hung, r.panic, r.detail)
	}
	var err error
	g := guard(func() { err = s.Listen(listenAddr("inproc")) })
	if g.bad() || err != nil {
		return false, fmt.Sprintf("Listen(inproc) afterwards => %s %+v", errName(err), g)
	}
	return true, ""
}

func runUnsupOps(w *wctx, u unsupCase) {
	p := u.p
	mk := func() (*cpair, mangos.Socket, func(), error) {
		if u.state == sFresh {
			s, err := p.mk()
			return nil, s, func() { go closeAll(s) }, err
		}
		c, err := connectRetry(p, "inproc", true, nil)
		if err != nil {
			return nil, nil, nil, err
		}
		return c, c.obj, func() { go c.close() }, nil
	}
	check := func(op string, applicable bool, do func(s mangos.Socket) error) {
		call := fmt.Sprintf("%s.%s", p.name, op)
		if !w.begin(call + " " + u.state) {
			return
		}
		in := fmt.Sprintf("object: %s.NewSocket(), %s; call: %s", p.name, u.state, call)
		c, s, done, err := mk()
		if err != nil {
			w.setupErr(err)
			return
		}
		defer done()
		if !applicable {
			w.count("pattern-has-the-operation")
			return
		}
		if c != nil {
			c.setStepDeadlines()
		}
		var operr error
		g := guard(func() { operr = do(s) })
		switch {
		case g.panicked:
			w.fail("unsupported-op-panic:"+call, "panic", in, "panicked: %s", g.pval)
			return
		case g.hung:
			w.fail("unsupported-op-hang:"+call, "hang", in, "did not return within %v; expected ErrProtoOp", callWatchdog)
			return
		case operr != mangos.ErrProtoOp:
			w.fail(fmt.Sprintf("unsupported-op:%s=>%s", call, errName(operr)), "fail", in, "expected ErrProtoOp, got %s", errName(operr))
		default:
			w.nontrivial(call + "|" + u.state)
		}
		if ok, why := stillWorks(c, s); !ok {
			w.fail("unsupported-op-side-effect:"+call, "fail", in, "after the refused operation the socket no longer works: %s", why)
		}
	}
	check("Recv()", p.style == stSendOnly, func(s mangos.Socket) error { _, err := s.Recv(); return err })
	check("RecvMsg()", p.style == stSendOnly, func(s mangos.Socket) error { _, err := s.RecvMsg(); return err })
	check("Send()", p.style == stRecvOnly, func(s mangos.Socket) error { return s.Send([]byte("x")) })
	check("SendMsg()", p.style == stRecvOnly, func(s mangos.Socket) error {
		m := mangos.NewMessage(1)
		m.Body = append(m.Body, 'x')
		return s.SendMsg(m)
	})
	check("OpenContext()", !p.hasCtx, func(s mangos.Socket) error { _, err := s.OpenContext(); return err })
}

func runUnsupDevice(w *wctx, u unsupCase) {
	name := func(p *proto) string {
		if p == nil {
			return "nil"
		}
		return p.name
	}
	var a, b *proto
	switch {
	case u.p == nil:
	case u.nilPos == 1:
		b = u.p
	case u.nilPos == 2:
		a = u.p
	default:
		a, b = u.p, u.p2
	}
	call := fmt.Sprintf("mangos.Device(%s,%s)", name(a), name(b))
	if !w.begin(call) {
		return
	}
	in := fmt.Sprintf("objects: fresh sockets from the named constructors, each connected to a cooked peer over inproc; call: %s", call)
	var ca, cb *cpair
	var sa, sb mangos.Socket
	var err error
	if a != nil {
		if ca, err = connectRetry(a, "inproc", true, nil); err != nil {
			w.setupErr(err)
			return
		}
		sa = ca.obj
		defer func() { go ca.close() }()
	}
	if b != nil {
		if cb, err = connectRetry(b, "inproc", true, nil); err != nil {
			w.setupErr(err)
			return
		}
		sb = cb.obj
		defer func() { go cb.close() }()
	}
	// expectation from the documentation of Device
	ea, eb := a, b
	if ea == nil {
		ea = eb
	}
	if eb == nil {
		eb = ea
	}
	var want []error
	protoMatched := false
	switch {
	case ea == nil:
		want = []error{mangos.ErrClosed}
	default:
		ia, ib := sockInfo(ea), sockInfo(eb)
		matched := ia.Self == ib.Peer && ib.Self == ia.Peer
		protoMatched = matched
		raw := ea.raw && eb.raw
		switch {
		case matched && raw:
			want = []error{nil}
		case matched:
			want = []error{mangos.ErrNotRaw}
		case raw:
			want = []error{mangos.ErrBadProto}
		default:
			want = []error{mangos.ErrBadProto, mangos.ErrNotRaw}
		}
	}
	// No receive deadline on the objects while Device is called: a forwarder started by mistake then
	// sits in RecvMsg for good instead of leaving at the first time-out (see the steal probe below).
	for _, c := range []*cpair{ca, cb} {
		if c != nil {
			c := c
			guard(func() { _ = c.obj.SetOption(mangos.OptionRecvDeadline, time.Duration(0)) })
		}
	}
	var derr error
	var g guardRes
	if sa == nil && sb == nil {
		g = guard(func() { derr = mangos.Device(nil, nil) })
	} else if sa == nil {
		g = guard(func() { derr = mangos.Device(nil, sb) })
	} else if sb == nil {
		g = guard(func() { derr = mangos.Device(sa, nil) })
	} else {
		g = guard(func() { derr = mangos.Device(sa, sb) })
	}
	if g.panicked {
		w.fail("unsupported-op-panic:"+call, "panic", in, "panicked: %s", g.pval)
		return
	}
	if g.hung {
		w.fail("unsupported-op-hang:"+call, "hang", in, "did not return within %v", callWatchdog)
		return
	}
	okErr := false
	for _, e := range want {
		if derr == e {
			okErr = true
		}
	}
	if want[0] == nil {
		// a legitimate device; not an unsupported operation
		if derr == nil {
			w.count("device-started")
		} else {
			w.count("device-legit-but-refused")
		}
		return
	}
	if !okErr {
		ws := ""
		for i, e := range want {
			if i > 0 {
				ws += " or "
			}
			ws += errName(e)
		}
		w.fail(fmt.Sprintf("unsupported-op:%s=>%s", call, errName(derr)), "fail", in, "expected %s, got %s", ws, errName(derr))
	} else {
		w.nontrivial(call)
	}
	// no side effect, part 1 (steal probe): the peer sends six messages; afterwards the application
	// must be able to receive all six from the object.  A forwarder goroutine started by the refused
	// Device would have taken (some of) them.
	for _, c := range []*cpair{ca, cb} {
		if c == nil || !(c.p.style == stSym || c.p.style == stRecvOnly || c.p.style == stServer) {
			continue
		}
		if !protoMatched {
			continue // Device refuses mismatched protocols before anything else could be started
		}
		want := map[string]bool{}
		sendErr := false
		for i := 0; i < 6; i++ {
			t := c.tag()
			if e := peerSend(c.peer, t); e.g.bad() || e.err != nil {
				sendErr = true
				break
			}
			want[t] = true
		}
		if sendErr {
			w.count("steal-probe-skipped")
			continue
		}
		time.Sleep(50 * time.Millisecond)
		cc := c
		guard(func() { _ = cc.obj.SetOption(mangos.OptionRecvDeadline, 500*time.Millisecond) })
		got := 0
		for i := 0; i < 50; i++ {
			var m *mangos.Message
			var rerr error
			gr := guard(func() { m, rerr = cc.obj.RecvMsg() })
			if gr.bad() || rerr != nil {
				break
			}
			if want[string(m.Body)] {
				got++
			}
			m.Free()
			if got == len(want) {
				break
			}
		}
		if got != len(want) {
			w.fail(fmt.Sprintf("unsupported-op-side-effect:%s:%s:messages-stolen", call, c.p.name), "fail", in,
				"after the refused Device only %d of %d messages sent by the peer reached the application of the %s socket: something else (a forwarder?) is receiving from it", got, len(want), c.p.name)
		} else {
			w.count("device-refused-no-forwarder-left")
		}
	}
	// part 2: both sockets still move messages with their own peers
	for _, c := range []*cpair{ca, cb} {
		if c == nil {
			continue
		}
		if ok, why := stillWorks(c, c.obj); !ok {
			w.fail(fmt.Sprintf("unsupported-op-side-effect:%s:%s", call, c.p.name), "fail", in,
				"after the refused Device the %s socket no longer works: %s", c.p.name, why)
			continue
		}
	}
}

var infoCache = map[string]mangos.ProtocolInfo{}

func sockInfo(p *proto) mangos.ProtocolInfo {
	if i, ok := infoCache[p.name]; ok {
		return i
	}
	s, err := p.mk()
	if err != nil {
		panic(err)
	}
	i := s.Info()
	_ = s.Close()
	infoCache[p.name] = i
	return i
}

func unsupScenario() *scenario {
	return &scenario{
		name:   "unsupported-operations",
		par:    12,
		ncases: func(string) int { return len(unsupCases()) },
		run: func(tier string, idx int, w *wctx) {
			u := unsupCases()[idx]
			if u.kind == "ops" {
				runUnsupOps(w, u)
			} else {
				runUnsupDevice(w, u)
			}
		},
	}
}

// ---------------------------------------------------------------------------------------
// "an accepted zero duration means no limit"
//
// case = (socket or context kind, RECV-DEADLINE | SEND-DEADLINE | SURVEY-TIME).  If
// Duration(0) is accepted, a blocking operation must never report a timeout: the operation
// is left blocked for 300 ms and then released by closing the socket; a timeout error at any
// moment is the violation (being still blocked is the expected outcome, not a measurement).

type zeroCase struct {
	p    *proto
	ctx  bool
	name string
	// MAX-RCV-SIZE cases
	tr        string
	objListen bool
}

func zeroCases() []zeroCase {
	var cs []zeroCase
	for _, p := range protos {
		for _, n := range []string{mangos.OptionRecvDeadline, mangos.OptionSendDeadline, mangos.OptionSurveyTime, mangos.OptionRetryTime} {
			cs = append(cs, zeroCase{p: p, name: n})
			if p.hasCtx {
				cs = append(cs, zeroCase{p: p, ctx: true, name: n})
			}
		}
	}
	// MAX-RCV-SIZE 0 "removes the limit": a message larger than the default limit arrives
	for _, tr := range trans {
		if tr == "inproc" {
			continue // documented not to honour the limit at all
		}
		for _, l := range []bool{true, false} {
			cs = append(cs, zeroCase{p: protoByName("pair"), name: mangos.OptionMaxRecvSize, tr: tr, objListen: l})
		}
	}
	return cs
}

func runZeroMaxRecv(w *wctx, z zeroCase) {
	side := "dialing"
	if z.objListen {
		side = "listening"
	}
	call := fmt.Sprintf("pair.SetOption(%q,0); %s over %s; peer sends 2 MiB", z.name, side, z.tr)
	if !w.begin(call) {
		return
	}
	in := "object: pair.NewSocket(); calls: " + call + "; pair.Recv()"
	big := make([]byte, 2<<20)
	try := func(set bool) (got bool, setErr error, hung bool) {
		c, err := connectRetry(z.p, z.tr, z.objListen, func(obj mangos.Socket) {
			if set {
				setErr = obj.SetOption(z.name, 0)
			}
		})
		if err != nil {
			w.setupErr(err)
			return false, setErr, false
		}
		defer func() { go c.close() }()
		if setErr != nil {
			return false, setErr, false
		}
		wait := 10 * time.Second
		if !set {
			wait = 300 * time.Millisecond
		}
		guard(func() {
			_ = c.obj.SetOption(mangos.OptionRecvDeadline, wait)
			_ = c.peer.SetOption(mangos.OptionSendDeadline, 5*time.Second)
		})
		var serr, rerr error
		var b []byte
		if g := guard(func() { serr = c.peer.Send(big) }); g.bad() || serr != nil {
			return false, nil, g.hung
		}
		g := guard(func() { b, rerr = c.obj.Recv() })
		return rerr == nil && len(b) == len(big), nil, g.hung
	}
	got, setErr, hung := try(true)
	switch {
	case setErr != nil:
		w.count("zero-not-accepted")
		return
	case hung:
		w.fail(fmt.Sprintf("zero-maxrecv-hang:%s", z.tr), "hang", in, "Recv did not return within %v although a 10 s deadline is set", callWatchdog)
		return
	case !got:
		w.fail(fmt.Sprintf("zero-maxrecv-still-limited:%s:%s", z.tr, side), "fail", in,
			"MAX-RCV-SIZE 0 was accepted (no limit) but a 2 MiB message does not arrive within 10 s")
		return
	}
	w.nontrivial(fmt.Sprintf("maxrecv0|%s|%s", z.tr, side))
	w.count("large-message-arrives-without-limit")
	// not asserted, only shows that the test discriminates: with the default 1 MiB limit
	// the same message is dropped
	if got, _, _ := try(false); !got {
		w.count("default-limit-drops-it")
	}
}

type sendRecver interface {
	Send([]byte) error
	Recv() ([]byte, error)
	SetOption(string, interface{}) error
}

func runZeroCase(w *wctx, z zeroCase) {
	if z.name == mangos.OptionMaxRecvSize {
		runZeroMaxRecv(w, z)
		return
	}
	p := z.p
	id := p.name
	if z.ctx {
		id += ".ctx"
	}
	call := fmt.Sprintf("%s.SetOption(%q,time.Duration(0)); blocking operation", id, z.name)
	if !w.begin(call) {
		return
	}
	in := fmt.Sprintf("object: %s connected to a cooked %s peer over inproc that never answers; calls: %s", id, p.peer, call)
	pre := func(obj mangos.Socket) {
		if z.name == mangos.OptionSendDeadline {
			_ = obj.SetOption(mangos.OptionWriteQLen, 1)
		}
	}
	c, err := connectRetry(p, "inproc", true, pre)
	if err != nil {
		w.setupErr(err)
		return
	}
	defer func() { go c.close() }()
	var o sendRecver = c.obj
	if z.ctx {
		ctx, err := c.obj.OpenContext()
		if err != nil {
			w.setupErr(err)
			return
		}
		o = ctx
	}
	var serr error
	if g := guard(func() { serr = o.SetOption(z.name, time.Duration(0)) }); g.bad() || serr != nil {
		w.count("zero-not-accepted")
		return
	}
	isTimeout := func(err error) bool { return err == mangos.ErrRecvTimeout || err == mangos.ErrSendTimeout }
	send := func() (error, bool) {
		var e error
		if p.raw {
			m := mangos.NewMessage(8)
			m.Body = append(m.Body, "zero"...)
			m.Header = append(m.Header, c.rawHeader()...)
			g := guardT(300*time.Millisecond, func() { e = c.obj.SendMsg(m) })
			return e, g.hung
		}
		g := guardT(300*time.Millisecond, func() { e = o.Send([]byte("zero")) })
		return e, g.hung
	}
	switch z.name {
	case mangos.OptionSendDeadline:
		if !p.canSend() {
			return
		}
		for i := 0; i < 6; i++ {
			e, blocked := send()
			if blocked {
				w.nontrivial(id + "|" + z.name + "|blocked")
				w.count("send-blocks-without-limit")
				return
			}
			if isTimeout(e) {
				w.fail(fmt.Sprintf("zero-deadline-timeout:%s:%s", id, z.name), "fail", in, "Send returned %s although the accepted deadline 0 means no limit", errName(e))
				return
			}
		}
		w.nontrivial(id + "|" + z.name)
		w.count("send-never-blocks")
	case mangos.OptionRecvDeadline, mangos.OptionSurveyTime:
		if !p.canRecv() {
			return
		}
		if p.style == stClient {
			// a request / survey must be outstanding for Recv to be legal
			if e, blocked := send(); blocked || e != nil {
				w.count("could-not-send-request")
				return
			}
		}
		var rerr error
		g := guardT(300*time.Millisecond, func() { _, rerr = o.Recv() })
		if g.hung {
			w.nontrivial(id + "|" + z.name + "|blocked")
			w.count("recv-blocks-without-limit")
			return
		}
		if isTimeout(rerr) {
			w.fail(fmt.Sprintf("zero-deadline-timeout:%s:%s", id, z.name), "fail", in, "Recv returned %s although the accepted value 0 means no limit", errName(rerr))
			return
		}
		if z.name == mangos.OptionSurveyTime && rerr == mangos.ErrProtoState {
			// a survey was sent successfully on this very socket/context just before, so
			// ErrProtoState can only mean that the survey is already over
			w.fail(fmt.Sprintf("zero-duration-expires:%s:%s", id, z.name), "fail", in,
				"a survey was just sent, SURVEY-TIME 0 is documented as infinite, but Recv returns ErrProtoState (survey already expired)")
			return
		}
		w.count("recv-returned-" + errName(rerr))
	case mangos.OptionRetryTime:
		// zero = "no automatic retries": the peer REP sees the request once; a second copy
		// (the peer never replies) would be a retransmission
		if p.style != stClient {
			return
		}
		if e, blocked := send(); blocked || e != nil {
			w.count("could-not-send-request")
			return
		}
		guard(func() { _ = c.peer.SetOption(mangos.OptionRecvDeadline, 2*time.Second) })
		var b []byte
		var rerr error
		if g := guard(func() { b, rerr = c.peer.Recv() }); g.bad() || rerr != nil || string(b) != "zero" {
			w.count("request-did-not-arrive")
			return
		}
		guard(func() { _ = c.peer.SetOption(mangos.OptionRecvDeadline, 400*time.Millisecond) })
		g := guard(func() { b, rerr = c.peer.Recv() })
		if !g.bad() && rerr == nil && string(b) == "zero" {
			w.fail(fmt.Sprintf("zero-retry-resends:%s", id), "fail", in,
				"RETRY-TIME 0 is documented as no automatic retries, but the peer received the request a second time")
			return
		}
		w.nontrivial(id + "|" + z.name)
		w.count("no-retransmission")
	}
}

func zeroScenario() *scenario {
	return &scenario{
		name:   "zero-duration-no-limit",
		par:    12,
		ncases: func(string) int { return len(zeroCases()) },
		run:    func(tier string, idx int, w *wctx) { runZeroCase(w, zeroCases()[idx]) },
	}
}

// ---------------------------------------------------------------------------------------

func registerAll() {
	register(gridScenario("option-grid-sockets-contexts", func(string) []objKind { return socketKinds() }, 14))
	register(gridScenario("option-grid-dialers-listeners", endpointKinds, 14))
	register(gridScenario("option-grid-pipes", pipeKinds, 12))
	register(epStartScenario())
	register(epInhScenario())
	register(ctxScenario())
	register(qlenScenario())
	register(unsupScenario())
	register(zeroScenario())
}
