package c19

import (
	"fmt"
	"reflect"
	"strings"

	"go.nanomsg.org/mangos/v3"
)

// target is one object with the Get/Set option interface.
type target struct {
	set  func(string, interface{}) error // nil: object has no SetOption (pipes)
	get  func(string) (interface{}, error)
	done func()
}

// objKind is one kind of object; mk builds a fresh one in the given state.
type objKind struct {
	id     string // used in signatures: "sub", "sub.ctx", "tcp.dialer", "tcp.listener", "tcp.pipe"
	desc   string // full description for the input field
	states []string
	mk     func(state string) (*target, error)
	// reuse: a connected endpoint is expensive (real TCP/TLS/WebSocket connection); the same
	// object is kept for the next value as long as every Set on it was rejected (a rejected
	// Set changes nothing), and replaced by a fresh one after any accepted Set.
	reuse bool
}

const (
	sFresh     = "before-connecting"
	sConnected = "after-connecting"
)

var bothStates = []string{sFresh, sConnected}

func socketKinds() []objKind {
	var ks []objKind
	for _, p := range protos {
		p := p
		ks = append(ks, objKind{id: p.name, desc: p.name + ".NewSocket()", states: bothStates,
			mk: func(state string) (*target, error) {
				if state == sFresh {
					s, err := p.mk()
					if err != nil {
						return nil, err
					}
					return &target{set: s.SetOption, get: s.GetOption, done: func() { closeAll(s) }}, nil
				}
				c, err := connectRetry(p, "inproc", true, nil)
				if err != nil {
					return nil, err
				}
				return &target{set: c.obj.SetOption, get: c.obj.GetOption, done: c.close}, nil
			}})
	}
	for _, p := range protos {
		p := p
		if !p.hasCtx {
			continue
		}
		ks = append(ks, objKind{id: p.name + ".ctx", desc: p.name + ".NewSocket().OpenContext()", states: bothStates,
			mk: func(state string) (*target, error) {
				var s mangos.Socket
				var done func()
				if state == sFresh {
					var err error
					if s, err = p.mk(); err != nil {
						return nil, err
					}
					done = func() { closeAll(s) }
				} else {
					c, err := connectRetry(p, "inproc", true, nil)
					if err != nil {
						return nil, err
					}
					s, done = c.obj, c.close
				}
				ctx, err := s.OpenContext()
				if err != nil {
					done()
					return nil, err
				}
				return &target{set: ctx.SetOption, get: ctx.GetOption, done: done}, nil
			}})
	}
	return ks
}

// endpointProtos: the socket kinds whose dialers / listeners / pipes are enumerated.  The
// endpoint code is pattern independent except that a core dialer's GetOption falls back to
// its socket, so quick uses three representative patterns and thorough all 24.
func endpointProtos(tier string) []string {
	if tier == "thorough" {
		var all []string
		for _, p := range protos {
			all = append(all, p.name)
		}
		return all
	}
	return []string{"pair", "req", "xsub"}
}

func endpointKinds(tier string) []objKind {
	var ks []objKind
	for _, pn := range endpointProtos(tier) {
		p := protoByName(pn)
		for _, tr := range trans {
			tr := tr
			ks = append(ks, objKind{id: tr + ".dialer", desc: fmt.Sprintf("%s.NewSocket().NewDialer(%q)", p.name, tr), states: bothStates, reuse: true,
				mk: func(state string) (*target, error) {
					if state == sFresh {
						s, err := p.mk()
						if err != nil {
							return nil, err
						}
						d, err := s.NewDialer(deadAddr(tr), nil)
						if err != nil {
							closeAll(s)
							return nil, err
						}
						return &target{set: d.SetOption, get: d.GetOption, done: func() { closeAll(s) }}, nil
					}
					c, err := connectRetry(p, tr, false, nil)
					if err != nil {
						return nil, err
					}
					return &target{set: c.dialer.SetOption, get: c.dialer.GetOption, done: c.close}, nil
				}})
			ks = append(ks, objKind{id: tr + ".listener", desc: fmt.Sprintf("%s.NewSocket().NewListener(%q)", p.name, tr), states: bothStates, reuse: true,
				mk: func(state string) (*target, error) {
					if state == sFresh {
						s, err := p.mk()
						if err != nil {
							return nil, err
						}
						l, err := s.NewListener(listenAddr(tr), nil)
						if err != nil {
							closeAll(s)
							return nil, err
						}
						return &target{set: l.SetOption, get: l.GetOption, done: func() { closeAll(s) }}, nil
					}
					c, err := connectRetry(p, tr, true, nil)
					if err != nil {
						return nil, err
					}
					return &target{set: c.listener.SetOption, get: c.listener.GetOption, done: c.close}, nil
				}})
		}
	}
	return ks
}

func pipeKinds(tier string) []objKind {
	var ks []objKind
	for _, pn := range endpointProtos(tier) {
		p := protoByName(pn)
		for _, tr := range trans {
			tr := tr
			for _, side := range []string{"dialer-side", "listener-side"} {
				side := side
				ks = append(ks, objKind{id: tr + ".pipe", desc: fmt.Sprintf("%s pipe of a %s socket over %s (from the Attached event)", side, p.name, tr),
					states: []string{sConnected},
					mk: func(string) (*target, error) {
						c, err := connectRetry(p, tr, side == "listener-side", nil)
						if err != nil {
							return nil, err
						}
						pp := c.objEv.pipe()
						if pp == nil {
							c.close()
							return nil, fmt.Errorf("no pipe")
						}
						return &target{get: pp.GetOption, done: c.close}, nil
					}})
			}
		}
	}
	return ks
}

type gridCase struct {
	k     objKind
	state string
	name  string
}

func gridCases(ks []objKind) []gridCase {
	var cs []gridCase
	for _, k := range ks {
		for _, st := range k.states {
			for _, o := range optNames {
				cs = append(cs, gridCase{k, st, o.name})
			}
		}
	}
	return cs
}

type setRes struct {
	v       val
	skipped bool // crashed a worker earlier, or panicked / hung here
	err     error
	gotOK   bool
	got     interface{}
	gotErr  error
}

// runGridCase evaluates (object kind, state, option name) against the whole value alphabet,
// a fresh object per call.
func runGridCase(w *wctx, c gridCase) {
	k := c.k
	in := func(call string) string {
		return fmt.Sprintf("object: %s, %s; call: %s", k.desc, c.state, call)
	}
	// Get on a fresh object
	var get0Err error
	get0Done := false
	call := fmt.Sprintf("%s.GetOption(%q)", k.id, c.name)
	if w.begin(call) {
		t, err := k.mk(c.state)
		if err != nil {
			w.setupErr(err)
		} else {
			g := guard(func() { _, get0Err = t.get(c.name) })
			switch {
			case g.panicked:
				w.fail("option-panic:"+call, "panic", in(call), "GetOption panicked: %s", g.pval)
			case g.hung:
				w.fail("option-hang:"+call, "hang", in(call), "GetOption did not return within %v", callWatchdog)
			default:
				get0Done = true
			}
			go t.done()
		}
	}
	if strings.HasSuffix(k.id, ".pipe") {
		// pipes: read-only properties
		if get0Done {
			switch get0Err {
			case nil:
				w.nontrivial(k.id + "|" + c.name)
				w.count("get-ok")
			case mangos.ErrBadOption, mangos.ErrBadProperty:
				w.count("unsupported-name")
			default:
				w.fail(fmt.Sprintf("badoption:%s=>%s", call, errName(get0Err)), "fail", in(call),
					"a property the pipe does not have must fail with ErrBadOption/ErrBadProperty, got %s", errName(get0Err))
			}
		}
		return
	}

	var rs []setRes
	var kept *target // reusable object (see objKind.reuse)
	defer func() {
		if kept != nil {
			go kept.done()
		}
	}()
	for _, v := range values() {
		r := setRes{v: v}
		call := fmt.Sprintf("%s.SetOption(%q,%s)", k.id, c.name, v.label)
		if !w.begin(call) {
			r.skipped = true
			rs = append(rs, r)
			continue
		}
		huge := v.label == "1<<31"
		if huge {
			hugeBegin() // see common.go
		}
		t := kept
		kept = nil
		if t == nil {
			var err error
			if t, err = k.mk(c.state); err != nil {
				w.setupErr(err)
				r.skipped = true
				rs = append(rs, r)
				if huge {
					hugeEnd(false)
				}
				continue
			}
			if c.name == mangos.OptionUnsubscribe {
				// the range UNSUBSCRIBE accepts is the set of current subscriptions: make the
				// byte/string values of the alphabet members of it (where SUBSCRIBE exists)
				guard(func() {
					for _, topic := range []interface{}{"x", []byte{}, []byte("a")} {
						_ = t.set(mangos.OptionSubscribe, topic)
					}
				})
			}
		}
		g := guardHuge(huge, func() {
			if huge {
				hugeBarrier()
			}
			r.err = t.set(c.name, v.v)
		})
		switch {
		case g.panicked:
			w.fail("option-panic:"+call, "panic", in(call), "SetOption panicked: %s", g.pval)
			r.skipped = true
		case g.hung:
			w.fail("option-hang:"+call, "hang", in(call), "SetOption did not return within %v", callWatchdog)
			r.skipped = true
		case r.err == nil:
			gcall := fmt.Sprintf("%s.SetOption(%q,%s);GetOption", k.id, c.name, v.label)
			g2 := guard(func() { r.got, r.gotErr = t.get(c.name) })
			switch {
			case g2.panicked:
				w.fail("option-panic:"+gcall, "panic", in(gcall), "GetOption after an accepted SetOption panicked: %s", g2.pval)
			case g2.hung:
				w.fail("option-hang:"+gcall, "hang", in(gcall), "GetOption after an accepted SetOption did not return within %v", callWatchdog)
			default:
				r.gotOK = true
			}
		}
		switch {
		case huge:
			hugeEnd(!r.skipped && r.err == nil)
			go t.done()
		case k.reuse && c.state == sConnected && !r.skipped && r.err != nil:
			kept = t
		default:
			go t.done()
		}
		rs = append(rs, r)
	}

	accepted := 0
	for _, r := range rs {
		if !r.skipped && r.err == nil {
			accepted++
		}
	}
	getOK := get0Done && get0Err == nil
	supported := getOK || accepted > 0
	if supported {
		w.nontrivial(k.id + "|" + c.name)
	}
	if getOK {
		w.count("get-ok")
	}

	// (2) a name the object does not support at all: ErrBadOption everywhere
	if !supported {
		w.count("unsupported-name")
		if get0Done && get0Err != mangos.ErrBadOption {
			call := fmt.Sprintf("%s.GetOption(%q)", k.id, c.name)
			w.fail(fmt.Sprintf("badoption:%s=>%s", call, errName(get0Err)), "fail", in(call),
				"no value is accepted and Get fails, so the option is unsupported: expected ErrBadOption, got %s", errName(get0Err))
		}
		for _, r := range rs {
			if r.skipped || r.err == mangos.ErrBadOption {
				continue
			}
			call := fmt.Sprintf("%s.SetOption(%q,%s)", k.id, c.name, r.v.label)
			w.fail(fmt.Sprintf("badoption:%s.SetOption(%q)=>%s", k.id, c.name, errName(r.err)), "fail", in(call),
				"no value is accepted and Get fails, so the option is unsupported: expected ErrBadOption, got %s", errName(r.err))
		}
		return
	}

	// (3) a settable option: every rejected value (wrong type or out of range) => ErrBadValue
	if accepted > 0 {
		fams := map[string]bool{}
		for _, r := range rs {
			if r.skipped {
				continue
			}
			call := fmt.Sprintf("%s.SetOption(%q,%s)", k.id, c.name, r.v.label)
			if r.err != nil {
				if r.err == mangos.ErrBadValue {
					w.count("rejected-badvalue")
				} else {
					w.fail(fmt.Sprintf("badvalue:%s=>%s", call, errName(r.err)), "fail", in(call),
						"the option accepts other values, so a rejected value must fail with ErrBadValue, got %s", errName(r.err))
				}
				continue
			}
			w.count("accepted")
			fams[family(r.v.class)] = true
			// a value of a plainly wrong type must never be accepted
			if oc := optClass(c.name); oc != "" && !classAllowed(oc, r.v.class) {
				w.fail("wrongtype-accepted:"+call, "fail", in(call),
					"the option is documented as %s but a %s value was accepted (nil error)", oc, r.v.class)
			}
			// (4) an accepted value is what Get returns
			if r.gotOK {
				gcall := call + ";GetOption"
				if r.gotErr != nil {
					if getOK {
						w.fail("get-after-set:"+call, "fail", in(gcall),
							"Get works on a fresh object but fails with %s after the accepted Set", errName(r.gotErr))
					} else {
						w.count("write-only")
					}
				} else if !sameAccepted(r.got, r.v.v) {
					w.fail("get-after-set:"+call, "fail", in(gcall),
						"accepted value %s but Get then returns %s%s", describe(r.v.v), describe(r.got), pointerNote(r.got, r.v.v))
				} else {
					w.count("get-after-set-ok")
				}
			}
		}
		if optClass(c.name) == "" && len(fams) > 1 {
			call := fmt.Sprintf("%s.SetOption(%q,*)", k.id, c.name)
			w.fail("wrongtype-accepted:"+call, "fail", in(call),
				"values of %d unrelated types are all accepted (nil error); at most one of them can be the right type", len(fams))
		}
	} else {
		w.count("read-only")
	}
	if w.res.Sample == nil && accepted > 0 {
		w.res.Sample = map[string]interface{}{"object": k.id, "state": c.state, "option": c.name, "accepted": accepted}
	}
}

func gridScenario(name string, kinds func(tier string) []objKind, par int) *scenario {
	cache := map[string][]gridCase{}
	cases := func(tier string) []gridCase {
		if c, ok := cache[tier]; ok {
			return c
		}
		c := gridCases(kinds(tier))
		cache[tier] = c
		return c
	}
	return &scenario{
		name:   name,
		par:    par,
		ncases: func(tier string) int { return len(cases(tier)) },
		run:    func(tier string, idx int, w *wctx) { runGridCase(w, cases(tier)[idx]) },
		huge:   func(tier string, idx int) bool { return isQLenName(cases(tier)[idx].name) },
	}
}

func isQLenName(n string) bool { return n == mangos.OptionReadQLen || n == mangos.OptionWriteQLen }

// sameAccepted: what Get returns is what Set accepted - for a pointer (a *tls.Config the
// application may go on completing, or compare by identity) the very same pointer.
func sameAccepted(got, set interface{}) bool {
	if rv := reflect.ValueOf(set); rv.IsValid() && rv.Kind() == reflect.Ptr && !rv.IsNil() {
		gv := reflect.ValueOf(got)
		return gv.IsValid() && gv.Kind() == reflect.Ptr && gv.Pointer() == rv.Pointer()
	}
	return reflect.DeepEqual(got, set)
}

func pointerNote(got, set interface{}) string {
	if rv := reflect.ValueOf(set); rv.IsValid() && rv.Kind() == reflect.Ptr && !rv.IsNil() && reflect.DeepEqual(got, set) {
		return " (an equal copy, not the object that was set)"
	}
	return ""
}
