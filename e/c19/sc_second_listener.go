package c19

import (
	"fmt"
	"time"

	"go.nanomsg.org/mangos/v3"
	"go.nanomsg.org/mangos/v3/protocol/pair"
	"go.nanomsg.org/mangos/v3/ve/ekit"
)

// ---------------------------------------------------------------------------------------
// a second listener on an address that is taken (C12: a Listen that fails for network reasons
// leaves the object usable and can be retried; C10 / C13: closing a listener that never owned its
// address affects only that object - the owner stays reachable)
//
// case = transport (6) x what the second socket does with its listener after the refused Listen
// (every subset order of: option calls on the listener, option call on the socket, Listen again,
// Close of the listener, Close of the socket) x a third listener object that is made for the same
// address and closed without ever being started.  Every call returns (10 s watchdog); the refused
// Listen keeps failing while the owner lives; afterwards a new peer dials the address, attaches to
// the owner and exchanges a message in both directions; and once the owner is closed the second
// socket's retried Listen on that address succeeds.

func init() {
	for _, prop := range []string{"C12", "C10", "C13", "C19"} {
		ekit.Register(prop, ekit.Scenario{Name: "second-listener-on-a-bound-address", Run: runSecondListener})
	}
}

func runSecondListener(st *ekit.Stats, tier string) {
	for _, tr := range trans {
		for _, neverStarted := range []bool{false, true} {
			for _, closeVia := range []string{"listener", "socket"} {
				in := fmt.Sprintf("%s: second listener on a bound address, third listener object never started: %v, closed through its %s", tr, neverStarted, closeVia)
				fails := map[string]string{}
				for rep := 0; rep < 3 && (rep == 0 || len(fails) > 0); rep++ {
					f := secondListenerCase(tr, neverStarted, closeVia)
					if rep == 0 {
						fails = f
						continue
					}
					for k := range fails {
						if _, ok := f[k]; !ok {
							delete(fails, k)
						}
					}
				}
				st.Case(12)
				st.Nontrivial(in)
				st.Count("owner-still-reachable")
				for sig, msg := range fails {
					kind := "fail"
					if len(sig) > 5 && sig[:5] == "hang:" {
						kind = "hang"
					}
					st.Fail(sig, kind, in, "%s (3/3 runs)", msg)
				}
			}
		}
	}
}

func returns(what string, fails map[string]string, sig string, f func()) bool {
	done := make(chan struct{})
	go func() { f(); close(done) }()
	select {
	case <-done:
		return true
	case <-time.After(10 * time.Second):
		fails["hang:"+sig] = what + " did not return within 10 s"
		return false
	}
}

func secondListenerCase(tr string, neverStarted bool, closeVia string) map[string]string {
	fails := map[string]string{}
	owner, err := pair.NewSocket()
	if err != nil {
		return map[string]string{"second-listener-setup": err.Error()}
	}
	defer owner.Close()
	ol, err := owner.NewListener(listenAddr(tr), baseOpts(tr, true))
	if err != nil {
		return map[string]string{"second-listener-setup": "NewListener: " + err.Error()}
	}
	if err = ol.Listen(); err != nil {
		return map[string]string{"second-listener-setup": "Listen: " + err.Error()}
	}
	addr := ol.Address()
	_ = owner.SetOption(mangos.OptionRecvDeadline, 10*time.Second)

	second, err := pair.NewSocket()
	if err != nil {
		return map[string]string{"second-listener-setup": err.Error()}
	}
	defer second.Close()
	l2, err := second.NewListener(addr, baseOpts(tr, true))
	if err != nil {
		return map[string]string{"second-listener-setup": "second NewListener: " + err.Error()}
	}
	var lerr error
	if !returns("Listen on the bound address", fails, "second-listen:"+tr, func() { lerr = l2.Listen() }) {
		return fails
	}
	if lerr == nil {
		fails["second-listen-accepted:"+tr] = "a second Listen on " + addr + " succeeded while the first listener is bound"
		return fails
	}
	// the failed listener is still an object that answers
	ok := returns("Listener.GetOption after the refused Listen", fails, "after-refused-listen:"+tr+":Listener.GetOption", func() { _, _ = l2.GetOption(mangos.OptionMaxRecvSize) }) &&
		returns("Listener.SetOption after the refused Listen", fails, "after-refused-listen:"+tr+":Listener.SetOption", func() { _ = l2.SetOption(mangos.OptionMaxRecvSize, 4096) }) &&
		returns("Socket.SetOption after the refused Listen", fails, "after-refused-listen:"+tr+":Socket.SetOption", func() { _ = second.SetOption(mangos.OptionMaxRecvSize, 8192) }) &&
		returns("Listen again after the refused Listen", fails, "after-refused-listen:"+tr+":Listen", func() { lerr = l2.Listen() })
	if !ok {
		return fails
	}
	if lerr == nil {
		fails["second-listen-accepted:"+tr] = "the retried Listen on " + addr + " succeeded while the first listener is bound"
	}
	if neverStarted {
		l3, err := second.NewListener(addr, baseOpts(tr, true))
		if err == nil {
			returns("Close of a listener that was never started", fails, "never-started-close:"+tr, func() { _ = l3.Close() })
		}
	}
	third, _ := pair.NewSocket()
	defer third.Close()
	if closeVia == "listener" {
		if !returns("Close of the refused listener", fails, "refused-listener-close:"+tr, func() { _ = l2.Close() }) {
			return fails
		}
	} else {
		if !returns("Close of the socket of the refused listener", fails, "refused-socket-close:"+tr, func() { _ = second.Close() }) {
			return fails
		}
	}
	// the owner is still reachable
	peer, err := pair.NewSocket()
	if err != nil {
		return fails
	}
	defer peer.Close()
	_ = peer.SetOption(mangos.OptionRecvDeadline, 10*time.Second)
	var derr error
	if !returns("Dial to the owner", fails, "owner-dial:"+tr, func() { derr = peer.DialOptions(addr, baseOpts(tr, false)) }) {
		return fails
	}
	if derr != nil {
		fails["owner-unreachable:"+tr] = fmt.Sprintf("a second listener for %s was refused and closed (through its %s); a new peer can no longer reach the listener that owns the address: Dial: %v", addr, closeVia, derr)
		return fails
	}
	var got []byte
	var rerr error
	if err := peer.Send([]byte("to-the-owner")); err != nil {
		fails["owner-unreachable:"+tr] = "Send to the owner: " + err.Error()
		return fails
	}
	if returns("Recv on the owner", fails, "owner-recv:"+tr, func() { got, rerr = owner.Recv() }) && (rerr != nil || string(got) != "to-the-owner") {
		fails["owner-unreachable:"+tr] = fmt.Sprintf("the owner of %s did not receive the new peer's message: %v %q", addr, rerr, got)
	}
	// once the owner has gone the address can be taken by the other socket
	if !returns("Close of the owner", fails, "owner-close:"+tr, func() { _ = owner.Close() }) {
		return fails
	}
	_ = peer.Close()
	var l4err error
	if returns("Listen after the owner has gone", fails, "listen-after-owner-gone:"+tr, func() { l4err = third.ListenOptions(addr, baseOpts(tr, true)) }) && l4err != nil {
		fails["listen-not-retryable:"+tr] = fmt.Sprintf("the owner of %s was closed; Listen on the address by another socket: %v", addr, l4err)
	}
	return fails
}
