// Package c19 is the engine E harness for property C19 (uniform option / unsupported
// operation contract).  Everything is enumerated completely over the stated finite sets;
// every case runs in a worker subprocess of the same binary (see runner.go) so that a
// crash in a mangos background goroutine or a fatal runtime error is attributed to the
// exact case instead of taking the run down.
package c19

import (
	"crypto/tls"
	"fmt"
	"os"
	"reflect"
	"runtime/debug"
	"strings"
	"sync"
	"sync/atomic"
	"time"

	"go.nanomsg.org/mangos/v3"
	itest "go.nanomsg.org/mangos/v3/internal/test"
	"go.nanomsg.org/mangos/v3/protocol/bus"
	"go.nanomsg.org/mangos/v3/protocol/pair"
	"go.nanomsg.org/mangos/v3/protocol/pair1"
	"go.nanomsg.org/mangos/v3/protocol/pub"
	"go.nanomsg.org/mangos/v3/protocol/pull"
	"go.nanomsg.org/mangos/v3/protocol/push"
	"go.nanomsg.org/mangos/v3/protocol/rep"
	"go.nanomsg.org/mangos/v3/protocol/req"
	"go.nanomsg.org/mangos/v3/protocol/respondent"
	"go.nanomsg.org/mangos/v3/protocol/star"
	"go.nanomsg.org/mangos/v3/protocol/sub"
	"go.nanomsg.org/mangos/v3/protocol/surveyor"
	"go.nanomsg.org/mangos/v3/protocol/xbus"
	"go.nanomsg.org/mangos/v3/protocol/xpair"
	"go.nanomsg.org/mangos/v3/protocol/xpair1"
	"go.nanomsg.org/mangos/v3/protocol/xpub"
	"go.nanomsg.org/mangos/v3/protocol/xpull"
	"go.nanomsg.org/mangos/v3/protocol/xpush"
	"go.nanomsg.org/mangos/v3/protocol/xrep"
	"go.nanomsg.org/mangos/v3/protocol/xreq"
	"go.nanomsg.org/mangos/v3/protocol/xrespondent"
	"go.nanomsg.org/mangos/v3/protocol/xstar"
	"go.nanomsg.org/mangos/v3/protocol/xsub"
	"go.nanomsg.org/mangos/v3/protocol/xsurveyor"
	_ "go.nanomsg.org/mangos/v3/transport/all"
	"go.nanomsg.org/mangos/v3/transport/ipc"
	"go.nanomsg.org/mangos/v3/transport/ws"
)

// ---------------------------------------------------------------------------------------
// protocols

// style says which directions a pattern can move a message in, seen from the object.
type style int

const (
	stSym      style = iota // object <-> peer, both directions independent
	stClient                // object sends, peer answers (req, surveyor)
	stServer                // peer sends, object answers (rep, respondent)
	stSendOnly              // pub, push
	stRecvOnly              // sub, pull
)

type proto struct {
	name   string
	mk     func() (mangos.Socket, error)
	peer   string // cooked protocol used as the connected peer
	raw    bool
	style  style
	hasCtx bool // documented to offer contexts
}

var protos = []*proto{
	{"pair", pair.NewSocket, "pair", false, stSym, false},
	{"xpair", xpair.NewSocket, "pair", true, stSym, false},
	{"pair1", pair1.NewSocket, "pair1", false, stSym, false},
	{"xpair1", xpair1.NewSocket, "pair1", true, stSym, false},
	{"req", req.NewSocket, "rep", false, stClient, true},
	{"xreq", xreq.NewSocket, "rep", true, stClient, false},
	{"rep", rep.NewSocket, "req", false, stServer, true},
	{"xrep", xrep.NewSocket, "req", true, stServer, false},
	{"pub", pub.NewSocket, "sub", false, stSendOnly, false},
	{"xpub", xpub.NewSocket, "sub", true, stSendOnly, false},
	{"sub", sub.NewSocket, "pub", false, stRecvOnly, true},
	{"xsub", xsub.NewSocket, "pub", true, stRecvOnly, false},
	{"push", push.NewSocket, "pull", false, stSendOnly, false},
	{"xpush", xpush.NewSocket, "pull", true, stSendOnly, false},
	{"pull", pull.NewSocket, "push", false, stRecvOnly, false},
	{"xpull", xpull.NewSocket, "push", true, stRecvOnly, false},
	{"surveyor", surveyor.NewSocket, "respondent", false, stClient, true},
	{"xsurveyor", xsurveyor.NewSocket, "respondent", true, stClient, false},
	{"respondent", respondent.NewSocket, "surveyor", false, stServer, true},
	{"xrespondent", xrespondent.NewSocket, "surveyor", true, stServer, false},
	{"bus", bus.NewSocket, "bus", false, stSym, false},
	{"xbus", xbus.NewSocket, "bus", true, stSym, false},
	{"star", star.NewSocket, "star", false, stSym, false},
	{"xstar", xstar.NewSocket, "star", true, stSym, false},
}

func protoByName(n string) *proto {
	for _, p := range protos {
		if p.name == n {
			return p
		}
	}
	panic("no proto " + n)
}

func (p *proto) canSend() bool { return p.style != stRecvOnly }
func (p *proto) canRecv() bool { return p.style != stSendOnly }

// ---------------------------------------------------------------------------------------
// option names

// optClass is the documented value type of an option ("" = not documented / read-only
// with a type outside the value alphabet).
var optNames = []struct {
	name  string
	class string // allowed value classes, '|' separated; "-" = none of the alphabet
}{
	{mangos.OptionRaw, "bool"},
	{mangos.OptionRecvDeadline, "dur"},
	{mangos.OptionSendDeadline, "dur"},
	{mangos.OptionRetryTime, "dur"},
	{mangos.OptionSubscribe, "bytes|string"},
	{mangos.OptionUnsubscribe, "bytes|string"},
	{mangos.OptionSurveyTime, "dur"},
	{mangos.OptionTLSConfig, "tls"},
	{mangos.OptionWriteQLen, "int"},
	{mangos.OptionReadQLen, "int"},
	{mangos.OptionKeepAlive, "bool"},
	{mangos.OptionKeepAliveTime, "dur"},
	{mangos.OptionNoDelay, "bool"},
	{mangos.OptionLinger, "dur"},
	{mangos.OptionTTL, "int"},
	{mangos.OptionMaxRecvSize, "int"},
	{mangos.OptionReconnectTime, "dur"},
	{mangos.OptionMaxReconnectTime, "dur"},
	{mangos.OptionBestEffort, "bool"},
	{mangos.OptionLocalAddr, "-"},
	{mangos.OptionRemoteAddr, "-"},
	{mangos.OptionTLSConnState, "-"},
	{mangos.OptionHTTPRequest, "-"},
	{mangos.OptionDialAsynch, "bool"},
	{mangos.OptionPeerPID, "int"},
	{mangos.OptionPeerUID, "int"},
	{mangos.OptionPeerGID, "int"},
	{mangos.OptionPeerZone, "int"},
	{mangos.OptionFailNoPeers, "bool"},
	// transport specific
	{ipc.OptionIpcSocketPermissions, "uint32"},
	{ipc.OptionIpcSocketOwner, "int"},
	{ipc.OptionIpcSocketGroup, "int"},
	{ipc.OptionSecurityDescriptor, "string"},
	{ipc.OptionInputBufferSize, "-"},
	{ipc.OptionOutputBufferSize, "-"},
	{ws.OptionWebSocketMux, "-"},
	{ws.OptionWebSocketHandler, "-"},
	{ws.OptionWebSocketCheckOrigin, "bool"},
	// a name the xpull implementation recognises although it is not documented
	{"_resizeDiscards", ""},
	// arbitrary strings
	{"NoSuchOption", ""},
	{"", ""},
}

func optClass(name string) string {
	for _, o := range optNames {
		if o.name == name {
			return o.class
		}
	}
	return ""
}

// ---------------------------------------------------------------------------------------
// values

type val struct {
	label string
	class string
	v     interface{}
}

// values returns the value alphabet (fresh pointers / timestamps each time).
func values() []val {
	return []val{
		{"nil", "nil", nil},
		{"true", "bool", true},
		{"false", "bool", false},
		{"-1", "int", -1},
		{"0", "int", 0},
		{"1", "int", 1},
		{"2", "int", 2},
		{"255", "int", 255},
		{"256", "int", 256},
		{"1<<31", "int", 1 << 31},
		{"int64(1)", "int64", int64(1)},
		{"uint32(1)", "uint32", uint32(1)},
		{`"x"`, "string", "x"},
		{"[]byte{}", "bytes", []byte{}},
		{`[]byte("a")`, "bytes", []byte("a")},
		{"time.Duration(-1)", "dur", time.Duration(-1)},
		{"time.Duration(0)", "dur", time.Duration(0)},
		{"time.Millisecond", "dur", time.Millisecond},
		{"time.Hour", "dur", time.Hour},
		{"time.Now()", "time", time.Now()},
		{"(*tls.Config)(nil)", "tls", (*tls.Config)(nil)},
		{"&tls.Config{}", "tls", &tls.Config{}},
		{"struct{}{}", "struct", struct{}{}},
	}
}

func valByLabel(l string) val {
	for _, v := range values() {
		if v.label == l {
			return v
		}
	}
	panic("no value " + l)
}

func classAllowed(optclass, vclass string) bool {
	for _, c := range strings.Split(optclass, "|") {
		if c == vclass {
			return true
		}
	}
	return false
}

// sameFamily: string and []byte are one family (SUBSCRIBE documents []byte and takes
// both), everything else is its own family.
func family(c string) string {
	if c == "string" || c == "bytes" {
		return "bytes"
	}
	return c
}

// ---------------------------------------------------------------------------------------
// guarded calls

const callWatchdog = 20 * time.Second

type guardRes struct {
	panicked bool
	pval     string
	hung     bool
}

func (g guardRes) bad() bool { return g.panicked || g.hung }

var opCount int64 // API operations performed by the current worker

// guardT runs fn under recover with a watchdog.  If fn does not return in time the
// goroutine is abandoned.
func guardT(d time.Duration, fn func()) guardRes {
	atomic.AddInt64(&opCount, 1)
	done := make(chan guardRes, 1)
	go func() {
		var r guardRes
		defer func() {
			if p := recover(); p != nil {
				r.panicked = true
				r.pval = firstLine(fmt.Sprint(p))
			}
			done <- r
		}()
		fn()
	}()
	t := time.NewTimer(d)
	defer t.Stop()
	select {
	case r := <-done:
		return r
	case <-t.C:
		return guardRes{hung: true}
	}
}

func guard(fn func()) guardRes { return guardT(callWatchdog, fn) }

// hugeWatchdog applies to calls with the value 2^31: zeroing 16 GiB (see hugeBegin) is slow
// but not a hang.
const hugeWatchdog = 150 * time.Second

// guardHuge: fn must call hugeBarrier() first if huge.
func guardHuge(huge bool, fn func()) guardRes {
	if huge {
		r := guardT(hugeWatchdog, fn)
		fmt.Println("h") // see hugeImpatience in runner.go
		return r
	}
	return guardT(callWatchdog, fn)
}

func firstLine(s string) string {
	if i := strings.IndexByte(s, '\n'); i >= 0 {
		s = s[:i]
	}
	if len(s) > 200 {
		s = s[:200]
	}
	return s
}

// A queue length of 2^31 is accepted by most protocols and means a 16 GiB channel buffer.
// Fresh from the OS that memory is never touched, but a garbage collection would scan it,
// and if the span overlaps pages the runtime has used before the allocator zeroes all of it
// (16 GiB resident, tens of seconds of page faults).  Therefore
//   - cases known to contain such a call (scenario.huge) run alone in a fresh worker process
//     started with GOGC=off: nothing is ever freed there, so every free page is untouched;
//   - around any other call with the value 2^31 the collector is switched off, and if the
//     value was accepted the worker exits after the current case.
var (
	workerMustExit bool
	gcOffWorker    = os.Getenv("GOGC") == "off"
)

// barriers: the Go page allocator is address-ordered first-fit and zeroes a whole span if it
// starts below the arena's high-water mark (e.g. on a freed goroutine stack).  A 128 MiB
// block allocated just before the call ends beyond every page used so far, so a following
// 16 GiB request starts on untouched memory.
var barriers [][]byte

func hugeBegin() {
	if !gcOffWorker {
		debug.SetGCPercent(-1)
	}
}

// hugeBarrier is called on the calling goroutine immediately before the SetOption call.
func hugeBarrier() {
	fmt.Println("H") // see hugeImpatience in runner.go
	barriers = append(barriers, make([]byte, 128<<20))
}

// hugeEnd: accepted says whether memory may really have been allocated.
func hugeEnd(accepted bool) {
	if accepted {
		workerMustExit = true
		return
	}
	if !workerMustExit && !gcOffWorker {
		debug.SetGCPercent(100)
	}
}

// closeAll closes sockets in the background with a bounded wait; a wedged Close is not
// C19's business (C12/C13), the socket is abandoned.
func closeAll(socks ...mangos.Socket) {
	var wg sync.WaitGroup
	for _, s := range socks {
		if s == nil {
			continue
		}
		s := s
		wg.Add(1)
		go func() {
			defer wg.Done()
			defer func() { _ = recover() }()
			_ = s.Close()
		}()
	}
	done := make(chan struct{})
	go func() { wg.Wait(); close(done) }()
	select {
	case <-done:
	case <-time.After(5 * time.Second):
	}
}

// ---------------------------------------------------------------------------------------
// addresses and TLS

var addrSeq int64

var tmpDir = os.TempDir()

var trans = []string{"inproc", "tcp", "ipc", "tls+tcp", "ws", "wss"}

// listenAddr returns an address to listen on (port 0 where the transport binds a port).
func listenAddr(tr string) string {
	n := atomic.AddInt64(&addrSeq, 1)
	switch tr {
	case "inproc":
		return fmt.Sprintf("inproc://c19-%d-%d", os.Getpid(), n)
	case "tcp":
		return "tcp://127.0.0.1:0"
	case "ipc":
		return fmt.Sprintf("ipc://%s/c19-%d-%d.sock", tmpDir, os.Getpid(), n)
	case "tls+tcp":
		return "tls+tcp://127.0.0.1:0"
	case "ws":
		return "ws://127.0.0.1:0/c19"
	case "wss":
		return "wss://127.0.0.1:0/c19"
	}
	panic("tran " + tr)
}

// deadAddr is a syntactically valid address nobody listens on (for dialers that are
// never started).
func deadAddr(tr string) string {
	n := atomic.AddInt64(&addrSeq, 1)
	switch tr {
	case "inproc":
		return fmt.Sprintf("inproc://c19-dead-%d-%d", os.Getpid(), n)
	case "tcp":
		return "tcp://127.0.0.1:1"
	case "ipc":
		return fmt.Sprintf("ipc://%s/c19-dead-%d-%d.sock", tmpDir, os.Getpid(), n)
	case "tls+tcp":
		return "tls+tcp://127.0.0.1:1"
	case "ws":
		return "ws://127.0.0.1:1/c19"
	case "wss":
		return "wss://127.0.0.1:1/c19"
	}
	panic("tran " + tr)
}

var (
	tlsOnce        sync.Once
	tlsSrv, tlsCli *tls.Config
	tlsErr         error
)

func tlsConfigs() (*tls.Config, *tls.Config) {
	tlsOnce.Do(func() { tlsSrv, tlsCli, _, tlsErr = itest.NewTLSConfig() })
	if tlsErr != nil {
		panic("harness: cannot make TLS config: " + tlsErr.Error())
	}
	return tlsSrv, tlsCli
}

func needsTLS(tr string) bool { return tr == "tls+tcp" || tr == "wss" }

func baseOpts(tr string, server bool) map[string]interface{} {
	m := map[string]interface{}{}
	if needsTLS(tr) {
		s, c := tlsConfigs()
		if server {
			m[mangos.OptionTLSConfig] = s
		} else {
			m[mangos.OptionTLSConfig] = c
		}
	}
	return m
}

// ---------------------------------------------------------------------------------------
// pipe event log

type evlog struct {
	mu       sync.Mutex
	attached int
	detached int
	last     mangos.Pipe
	ch       chan struct{}
}

func newEvlog() *evlog { return &evlog{ch: make(chan struct{}, 64)} }

func (e *evlog) hook(ev mangos.PipeEvent, p mangos.Pipe) {
	e.mu.Lock()
	switch ev {
	case mangos.PipeEventAttached:
		e.attached++
		e.last = p
	case mangos.PipeEventDetached:
		e.detached++
	}
	e.mu.Unlock()
	select {
	case e.ch <- struct{}{}:
	default:
	}
}

func (e *evlog) counts() (int, int) {
	e.mu.Lock()
	defer e.mu.Unlock()
	return e.attached, e.detached
}

func (e *evlog) pipe() mangos.Pipe {
	e.mu.Lock()
	defer e.mu.Unlock()
	return e.last
}

// waitAttached waits until at least n pipes have been attached.
func (e *evlog) waitAttached(n int, d time.Duration) bool {
	dl := time.Now().Add(d)
	for {
		a, _ := e.counts()
		if a >= n {
			return true
		}
		left := time.Until(dl)
		if left <= 0 {
			return false
		}
		select {
		case <-e.ch:
		case <-time.After(left):
		}
	}
}

// ---------------------------------------------------------------------------------------
// connected pairs

type cpair struct {
	p             *proto
	obj, peer     mangos.Socket
	objEv, peerEv *evlog
	listener      mangos.Listener // obj side when objListens
	dialer        mangos.Dialer
	seq           int
}

func (c *cpair) close() { closeAll(c.obj, c.peer) }

// subscribeAll makes SUB style sockets receive everything.
func subscribeAll(s mangos.Socket, name string) {
	if name == "sub" {
		_ = s.SetOption(mangos.OptionSubscribe, []byte{})
	}
}

// connect creates obj (protocol p) and a cooked peer and connects them over tr.  pre runs
// on obj before connecting.  objListens selects which side listens.
func connect(p *proto, tr string, objListens bool, pre func(obj mangos.Socket)) (*cpair, error) {
	obj, err := p.mk()
	if err != nil {
		return nil, err
	}
	peer, err := protoByName(p.peer).mk()
	if err != nil {
		closeAll(obj)
		return nil, err
	}
	c := &cpair{p: p, obj: obj, peer: peer, objEv: newEvlog(), peerEv: newEvlog()}
	obj.SetPipeEventHook(c.objEv.hook)
	peer.SetPipeEventHook(c.peerEv.hook)
	if pre != nil {
		pre(obj)
	}
	subscribeAll(obj, p.name)
	subscribeAll(peer, p.peer)
	ls, ds := peer, obj
	if objListens {
		ls, ds = obj, peer
	}
	var l mangos.Listener
	var d mangos.Dialer
	var serr error
	g := guard(func() {
		l, serr = ls.NewListener(listenAddr(tr), baseOpts(tr, true))
		if serr != nil {
			return
		}
		if serr = l.Listen(); serr != nil {
			return
		}
		d, serr = ds.NewDialer(l.Address(), baseOpts(tr, false))
		if serr != nil {
			return
		}
		serr = d.Dial()
	})
	if g.bad() || serr != nil {
		c.close()
		return nil, fmt.Errorf("connect %s over %s: %v %+v", p.name, tr, serr, g)
	}
	if !c.objEv.waitAttached(1, 5*time.Second) || !c.peerEv.waitAttached(1, 5*time.Second) {
		c.close()
		return nil, fmt.Errorf("connect %s over %s: no Attached event", p.name, tr)
	}
	c.listener, c.dialer = l, d
	return c, nil
}

func connectRetry(p *proto, tr string, objListens bool, pre func(obj mangos.Socket)) (*cpair, error) {
	var err error
	for i := 0; i < 3; i++ {
		var c *cpair
		if c, err = connect(p, tr, objListens, pre); err == nil {
			return c, nil
		}
	}
	return nil, err
}

// ---------------------------------------------------------------------------------------
// describing values and errors

func errName(err error) string {
	switch err {
	case nil:
		return "nil"
	case mangos.ErrBadOption:
		return "ErrBadOption"
	case mangos.ErrBadValue:
		return "ErrBadValue"
	case mangos.ErrBadProperty:
		return "ErrBadProperty"
	case mangos.ErrProtoOp:
		return "ErrProtoOp"
	case mangos.ErrNotRaw:
		return "ErrNotRaw"
	case mangos.ErrBadProto:
		return "ErrBadProto"
	case mangos.ErrClosed:
		return "ErrClosed"
	case mangos.ErrRecvTimeout:
		return "ErrRecvTimeout"
	case mangos.ErrSendTimeout:
		return "ErrSendTimeout"
	case mangos.ErrProtoState:
		return "ErrProtoState"
	}
	return "error(" + firstLine(err.Error()) + ")"
}

func describe(v interface{}) string {
	if v == nil {
		return "nil"
	}
	rv := reflect.ValueOf(v)
	if rv.Kind() == reflect.Ptr {
		if rv.IsNil() {
			return fmt.Sprintf("(%T)(nil)", v)
		}
		return fmt.Sprintf("%T@%p", v, v)
	}
	s := fmt.Sprintf("%T(%v)", v, v)
	if len(s) > 80 {
		s = s[:80]
	}
	return s
}
