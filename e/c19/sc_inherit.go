package c19

import (
	"fmt"
	"reflect"
	"sync"
	"time"

	"go.nanomsg.org/mangos/v3"
)

// ---------------------------------------------------------------------------------------
// contexts inherit the socket's options (where an option is settable on both)
//
// case = (protocol, option name); sub-cases = values.  An option is "settable on both" if
// the socket accepts the value and a fresh context accepts some value of the alphabet for
// that name; then socket.Set(v); OpenContext(); ctx.Get must return v.

type ctxCase struct {
	p    *proto
	name string
}

func ctxCases() []ctxCase {
	var cs []ctxCase
	for _, p := range protos {
		for _, o := range optNames {
			cs = append(cs, ctxCase{p, o.name})
		}
	}
	return cs
}

func runCtxCase(w *wctx, c ctxCase) {
	p := c.p
	// does the pattern have contexts, and is the option settable on a context?
	probe := fmt.Sprintf("%s.OpenContext(); ctx.SetOption(%q,*)", p.name, c.name)
	if !w.begin(probe) {
		return
	}
	ctxSettable := false
	{
		s, err := p.mk()
		if err != nil {
			w.setupErr(err)
			return
		}
		var cerr error
		g := guard(func() { _, cerr = s.OpenContext() })
		go closeAll(s)
		if g.bad() {
			return // reported by the unsupported-ops scenario
		}
		if cerr != nil {
			w.count("pattern-without-contexts")
			return
		}
		for _, v := range values() {
			s, err := p.mk()
			if err != nil {
				w.setupErr(err)
				return
			}
			var serr error = fmt.Errorf("not run")
			g := guard(func() {
				ctx, err := s.OpenContext()
				if err == nil {
					serr = ctx.SetOption(c.name, v.v)
				}
			})
			go closeAll(s)
			if !g.bad() && serr == nil {
				ctxSettable = true
				break
			}
		}
	}
	if !ctxSettable {
		w.count("not-a-context-option")
		return
	}
	// The property asks for inheritance "where the pattern provides that".  A pattern is taken to
	// provide it when a new context picks up at least one option from its socket; a pattern whose
	// contexts always start from their own defaults (REP today) does not, and is not judged here.
	if !providesCtxInheritance(p) {
		w.count("pattern-does-not-provide-context-inheritance")
		return
	}
	for _, v := range values() {
		call := fmt.Sprintf("%s.SetOption(%q,%s); OpenContext(); ctx.GetOption", p.name, c.name, v.label)
		if !w.begin(call) {
			continue
		}
		s, err := p.mk()
		if err != nil {
			w.setupErr(err)
			continue
		}
		var serr, gerr error
		var got interface{}
		if v.label == "1<<31" {
			hugeBegin()
		}
		g := guardHuge(v.label == "1<<31", func() {
			if v.label == "1<<31" {
				hugeBarrier()
			}
			if serr = s.SetOption(c.name, v.v); serr != nil {
				return
			}
			ctx, err := s.OpenContext()
			if err != nil {
				gerr = err
				return
			}
			got, gerr = ctx.GetOption(c.name)
		})
		if v.label == "1<<31" {
			hugeEnd(!g.bad() && serr == nil)
		}
		go closeAll(s)
		if g.bad() || serr != nil {
			continue // panics / rejected values belong to the grid scenario
		}
		if gerr != nil {
			w.count("context-get-unsupported")
			continue
		}
		w.nontrivial(p.name + "|" + c.name)
		if reflect.DeepEqual(got, v.v) {
			w.count("inherited")
			continue
		}
		// a context that merely reports its own default although the socket was changed
		w.fail(fmt.Sprintf("ctx-inherit:%s:%s", p.name, c.name), "fail",
			fmt.Sprintf("object: %s.NewSocket(), before connecting; calls: %s", p.name, call),
			"option is settable on the socket and on its contexts; socket set to %s, a context opened afterwards reports %s", describe(v.v), describe(got))
	}
}

func ctxScenario() *scenario {
	return &scenario{
		name:   "ctx-inherit",
		par:    8,
		ncases: func(string) int { return len(ctxCases()) },
		run:    func(tier string, idx int, w *wctx) { runCtxCase(w, ctxCases()[idx]) },
		huge:   func(tier string, idx int) bool { return isQLenName(ctxCases()[idx].name) },
	}
}

// ---------------------------------------------------------------------------------------
// dialers and listeners inherit the socket level options
//
// case = (protocol, transport, option in {MaxRecvSize, ReconnectTime, MaxReconnectTime,
// DialAsynch}); sub-cases = values accepted by the socket.

var sockLevelOpts = []string{mangos.OptionMaxRecvSize, mangos.OptionReconnectTime, mangos.OptionMaxReconnectTime, mangos.OptionDialAsynch}

type epInhCase struct {
	p    *proto
	tr   string
	name string
}

func epInhCases() []epInhCase {
	var cs []epInhCase
	for _, p := range protos {
		for _, tr := range trans {
			for _, n := range sockLevelOpts {
				cs = append(cs, epInhCase{p, tr, n})
			}
		}
	}
	return cs
}

func runEpInhCase(w *wctx, c epInhCase) {
	p := c.p
	for _, v := range values() {
		call := fmt.Sprintf("%s.SetOption(%q,%s); NewDialer/NewListener(%s); GetOption", p.name, c.name, v.label, c.tr)
		if !w.begin(call) {
			continue
		}
		s, err := p.mk()
		if err != nil {
			w.setupErr(err)
			continue
		}
		var serr, derr, lerr, dgerr, lgerr error
		var dgot, lgot interface{}
		g := guard(func() {
			if serr = s.SetOption(c.name, v.v); serr != nil {
				return
			}
			var d mangos.Dialer
			var l mangos.Listener
			if d, derr = s.NewDialer(deadAddr(c.tr), nil); derr == nil {
				dgot, dgerr = d.GetOption(c.name)
			}
			if l, lerr = s.NewListener(listenAddr(c.tr), nil); lerr == nil {
				lgot, lgerr = l.GetOption(c.name)
			}
		})
		go closeAll(s)
		in := fmt.Sprintf("object: %s.NewSocket(), before connecting; calls: %s", p.name, call)
		if g.panicked {
			w.fail("option-panic:"+call, "panic", in, "panicked: %s", g.pval)
			continue
		}
		if g.hung {
			w.fail("option-hang:"+call, "hang", in, "did not return within %v", callWatchdog)
			continue
		}
		if serr != nil {
			continue
		}
		if derr != nil || lerr != nil {
			w.setupErr(fmt.Errorf("NewDialer/NewListener(%s): %v %v", c.tr, derr, lerr))
			continue
		}
		if dgerr == nil {
			w.nontrivial(fmt.Sprintf("%s|%s.dialer|%s", p.name, c.tr, c.name))
			if reflect.DeepEqual(dgot, v.v) {
				w.count("dialer-inherited")
			} else {
				w.fail(fmt.Sprintf("ep-inherit:%s.dialer:%s", c.tr, c.name), "fail", in,
					"socket option set to %s, a dialer created afterwards reports %s", describe(v.v), describe(dgot))
			}
		} else {
			w.count("dialer-get-unsupported")
		}
		if lgerr == nil {
			w.nontrivial(fmt.Sprintf("%s|%s.listener|%s", p.name, c.tr, c.name))
			if reflect.DeepEqual(lgot, v.v) {
				w.count("listener-inherited")
			} else {
				w.fail(fmt.Sprintf("ep-inherit:%s.listener:%s", c.tr, c.name), "fail", in,
					"socket option set to %s, a listener created afterwards reports %s", describe(v.v), describe(lgot))
			}
		} else {
			w.count("listener-get-unsupported")
		}
	}
}

func epInhScenario() *scenario {
	return &scenario{
		name:   "endpoint-inherit",
		par:    8,
		ncases: func(string) int { return len(epInhCases()) },
		run:    func(tier string, idx int, w *wctx) { runEpInhCase(w, epInhCases()[idx]) },
	}
}

// ---------------------------------------------------------------------------------------
// options handed to NewDialer / NewListener (the DialOptions / ListenOptions path), then the
// endpoint is started: nothing may panic or hang, the error contract is the same.
//
// case = (transport, dialer | listener, option name); sub-cases = values.

type epStartCase struct {
	tr   string
	kind string
	name string
}

func epStartCases() []epStartCase {
	var cs []epStartCase
	for _, tr := range trans {
		for _, k := range []string{"dialer", "listener"} {
			for _, o := range optNames {
				cs = append(cs, epStartCase{tr, k, o.name})
			}
		}
	}
	return cs
}

func runEpStartCase(w *wctx, c epStartCase) {
	p := protoByName("pair")
	type res struct {
		v       val
		skipped bool
		err     error
	}
	var rs []res
	for _, v := range values() {
		r := res{v: v}
		var call string
		if c.kind == "dialer" {
			call = fmt.Sprintf("pair.NewDialer(%s,{%q:%s}).Dial()", c.tr, c.name, v.label)
		} else {
			call = fmt.Sprintf("pair.NewListener(%s,{%q:%s}).Listen()", c.tr, c.name, v.label)
		}
		in := "object: pair.NewSocket(); call: " + call + " (plus a valid TLS-CONFIG for tls+tcp/wss unless that is the option under test)"
		if !w.begin(call) {
			r.skipped = true
			rs = append(rs, r)
			continue
		}
		s, err := p.mk()
		if err != nil {
			w.setupErr(err)
			r.skipped = true
			rs = append(rs, r)
			continue
		}
		var peer mangos.Socket
		addr := listenAddr(c.tr)
		if c.kind == "dialer" {
			// somebody to dial
			peer, _ = p.mk()
			var perr error
			var l mangos.Listener
			g := guard(func() {
				if l, perr = peer.NewListener(addr, baseOpts(c.tr, true)); perr == nil {
					if perr = l.Listen(); perr == nil {
						addr = l.Address()
					}
				}
			})
			if g.bad() || perr != nil {
				w.setupErr(fmt.Errorf("peer listener on %s: %v", c.tr, perr))
				go closeAll(s, peer)
				r.skipped = true
				rs = append(rs, r)
				continue
			}
		}
		opts := baseOpts(c.tr, c.kind == "listener")
		opts[c.name] = v.v
		var startErr error
		started := false
		g := guard(func() {
			if c.kind == "dialer" {
				var d mangos.Dialer
				if d, r.err = s.NewDialer(addr, opts); r.err == nil {
					started = true
					startErr = d.Dial()
				}
			} else {
				var l mangos.Listener
				if l, r.err = s.NewListener(addr, opts); r.err == nil {
					started = true
					startErr = l.Listen()
				}
			}
		})
		go closeAll(s, peer)
		switch {
		case g.panicked:
			w.fail("option-panic:"+call, "panic", in, "panicked: %s", g.pval)
			r.skipped = true
		case g.hung:
			w.fail("option-hang:"+call, "hang", in, "did not return within %v", callWatchdog)
			r.skipped = true
		case started:
			if startErr == nil {
				w.count("started")
			} else {
				w.count("start-error")
			}
		}
		rs = append(rs, r)
	}
	accepted := 0
	for _, r := range rs {
		if !r.skipped && r.err == nil {
			accepted++
		}
	}
	obj := fmt.Sprintf("pair.New%s(%s,{%q:", map[string]string{"dialer": "Dialer", "listener": "Listener"}[c.kind], c.tr, c.name)
	if accepted > 0 {
		w.nontrivial(c.tr + "." + c.kind + "|" + c.name)
	}
	for _, r := range rs {
		if r.skipped || r.err == nil {
			continue
		}
		in := fmt.Sprintf("object: pair.NewSocket(); call: %s%s})", obj, r.v.label)
		if accepted == 0 {
			if r.err != mangos.ErrBadOption {
				w.fail(fmt.Sprintf("badoption:%s*})=>%s", obj, errName(r.err)), "fail", in,
					"no value is accepted for this name, so it is unsupported: expected ErrBadOption, got %s", errName(r.err))
			}
		} else if r.err != mangos.ErrBadValue {
			w.fail(fmt.Sprintf("badvalue:%s%s})=>%s", obj, r.v.label, errName(r.err)), "fail", in,
				"other values are accepted, so a rejected value must fail with ErrBadValue, got %s", errName(r.err))
		}
	}
}

func epStartScenario() *scenario {
	return &scenario{
		name:   "endpoint-options-start",
		par:    12,
		ncases: func(string) int { return len(epStartCases()) },
		run:    func(tier string, idx int, w *wctx) { runEpStartCase(w, epStartCases()[idx]) },
	}
}

var inheritCache = map[string]bool{}
var inheritMu sync.Mutex

// providesCtxInheritance reports whether contexts of this pattern take over any option at all
// from the socket they are opened on.
func providesCtxInheritance(p *proto) bool {
	inheritMu.Lock()
	defer inheritMu.Unlock()
	if v, ok := inheritCache[p.name]; ok {
		return v
	}
	probes := []struct {
		name string
		val  interface{}
	}{
		{mangos.OptionRecvDeadline, 1234 * time.Millisecond},
		{mangos.OptionSendDeadline, 1234 * time.Millisecond},
		{mangos.OptionBestEffort, true},
		{mangos.OptionRetryTime, 1234 * time.Millisecond},
		{mangos.OptionSurveyTime, 1234 * time.Millisecond},
		{mangos.OptionReadQLen, 7},
		{mangos.OptionFailNoPeers, true},
	}
	res := false
	for _, pr := range probes {
		s, err := p.mk()
		if err != nil {
			continue
		}
		g := guard(func() {
			if s.SetOption(pr.name, pr.val) != nil {
				return
			}
			ctx, err := s.OpenContext()
			if err != nil {
				return
			}
			if got, err := ctx.GetOption(pr.name); err == nil && reflect.DeepEqual(got, pr.val) {
				res = true
			}
		})
		_ = g
		go closeAll(s)
		if res {
			break
		}
	}
	inheritCache[p.name] = res
	return res
}
