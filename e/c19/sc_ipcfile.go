package c19

import (
	"fmt"
	"os"
	"strings"
	"syscall"

	"go.nanomsg.org/mangos/v3"
	"go.nanomsg.org/mangos/v3/protocol/pair"
	"go.nanomsg.org/mangos/v3/transport/ipc"
	"go.nanomsg.org/mangos/v3/ve/ekit"
)

// ---------------------------------------------------------------------------------------
// an accepted option takes effect: attributes of the ipc socket file
//
// case = permission value (every value of a 14 element set, 0 and 0777 included) x value type
// (uint32, os.FileMode) x how it is given (SetOption on the listener, NewListener option map,
// ListenOptions) x owner/group option (not set, set to a foreign uid / gid when the process may
// chown).  Every accepted value is what the socket file has after Listen - the permission bits
// exactly, zero included - a second listener socket (other file) set differently is not affected,
// and values outside 0..0777 or of another type are refused with ErrBadValue and leave the file
// attributes of the next Listen alone.

func init() {
	ekit.Register("C19", ekit.Scenario{Name: "ipc-socket-file-attributes-take-effect", Run: runIpcFile})
}

var ipcModes = []uint32{0, 0001, 0007, 0070, 0100, 0400, 0600, 0640, 0644, 0660, 0700, 0750, 0755, 0777}

var ipcSeq int

func runIpcFile(st *ekit.Stats, tier string) {
	for _, mode := range ipcModes {
		for _, asFileMode := range []bool{false, true} {
			for _, how := range []string{"SetOption", "NewListener-options", "ListenOptions"} {
				for _, own := range []bool{false, true} {
					if own && os.Geteuid() != 0 {
						continue
					}
					in := fmt.Sprintf("ipc listener, %s=%04o as %s via %s, owner/group options set: %v", ipc.OptionIpcSocketPermissions, mode,
						map[bool]string{false: "uint32", true: "os.FileMode"}[asFileMode], how, own)
					fails := map[string]string{}
					for rep := 0; rep < 3 && (rep == 0 || len(fails) > 0); rep++ {
						f := ipcFileCase(mode, asFileMode, how, own)
						if rep == 0 {
							fails = f
							continue
						}
						for k := range fails {
							if _, ok := f[k]; !ok {
								delete(fails, k)
							}
						}
					}
					st.Case(4)
					st.Nontrivial(in)
					if mode == 0 {
						st.Count("permission-zero-applied")
					}
					for sig, msg := range fails {
						st.Fail(sig, "fail", in, "%s (3/3 runs)", msg)
					}
				}
			}
		}
	}
}

func ipcFileCase(mode uint32, asFileMode bool, how string, own bool) map[string]string {
	fails := map[string]string{}
	s, err := pair.NewSocket()
	if err != nil {
		return map[string]string{"ipcfile-setup": err.Error()}
	}
	defer s.Close()
	ipcSeq++
	path := fmt.Sprintf("%s/c19-ipcfile-%d-%d.sock", tmpDir, os.Getpid(), ipcSeq)
	defer os.Remove(path)
	addr := "ipc://" + path
	var val interface{} = mode
	if asFileMode {
		val = os.FileMode(mode)
	}
	opts := map[string]interface{}{}
	if how != "SetOption" {
		opts[ipc.OptionIpcSocketPermissions] = val
		if own {
			opts[ipc.OptionIpcSocketOwner] = 1
			opts[ipc.OptionIpcSocketGroup] = 2
		}
	}
	if how == "ListenOptions" {
		if err := s.ListenOptions(addr, opts); err != nil {
			return map[string]string{"ipcfile-setup": "ListenOptions: " + err.Error()}
		}
	} else {
		l, err := s.NewListener(addr, opts)
		if err != nil {
			return map[string]string{"ipcfile-setup": "NewListener: " + err.Error()}
		}
		if how == "SetOption" {
			// a refused value first: it must leave no trace
			for _, bad := range []interface{}{uint32(01000), os.FileMode(os.ModeDir | 0700), int(0600), "0600", -1} {
				if err := l.SetOption(ipc.OptionIpcSocketPermissions, bad); err != mangos.ErrBadValue {
					fails[fmt.Sprintf("badvalue-accepted:ipc.listener.SetOption(%q,%T)", ipc.OptionIpcSocketPermissions, bad)] = fmt.Sprintf("SetOption(%v) returned %v, want ErrBadValue", bad, err)
				}
			}
			if err := l.SetOption(ipc.OptionIpcSocketPermissions, val); err != nil {
				fails[fmt.Sprintf("option-refused:ipc.listener.SetOption(%q,%04o)", ipc.OptionIpcSocketPermissions, mode)] = fmt.Sprintf("SetOption(%04o) returned %v", mode, err)
				return fails
			}
			if own {
				if err := l.SetOption(ipc.OptionIpcSocketOwner, 1); err != nil {
					fails["option-refused:ipc.listener.SetOption(owner)"] = err.Error()
				}
				if err := l.SetOption(ipc.OptionIpcSocketGroup, 2); err != nil {
					fails["option-refused:ipc.listener.SetOption(group)"] = err.Error()
				}
			}
		}
		if err := l.Listen(); err != nil {
			return map[string]string{"ipcfile-setup": "Listen: " + err.Error()}
		}
	}
	fi, err := os.Stat(path)
	if err != nil {
		fails["ipcfile-missing"] = "the socket file does not exist after Listen: " + err.Error()
		return fails
	}
	if got := uint32(fi.Mode().Perm()); got != mode {
		fails[fmt.Sprintf("option-without-effect:ipc.listener:%s=%s", ipc.OptionIpcSocketPermissions, modeClass(mode))] =
			fmt.Sprintf("%s = %04o was accepted (%s), the socket file has mode %04o after Listen", ipc.OptionIpcSocketPermissions, mode, how, got)
	}
	if own {
		if sys, ok := fi.Sys().(*syscall.Stat_t); ok && (sys.Uid != 1 || sys.Gid != 2) {
			fails["option-without-effect:ipc.listener:owner/group"] = fmt.Sprintf("owner 1 / group 2 were accepted (%s), the socket file belongs to %d / %d", how, sys.Uid, sys.Gid)
		}
	}
	return fails
}

func modeClass(m uint32) string {
	if m == 0 {
		return "0"
	}
	return strings.TrimLeft(fmt.Sprintf("%04o", m), " ")
}
