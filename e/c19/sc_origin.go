package c19

import (
	"bufio"
	"crypto/tls"
	"fmt"
	"net"
	"net/http"
	"net/url"
	"strings"
	"time"

	"go.nanomsg.org/mangos/v3"
	"go.nanomsg.org/mangos/v3/protocol/pair"
	"go.nanomsg.org/mangos/v3/transport/ws"
	"go.nanomsg.org/mangos/v3/ve/ekit"
)

// ---------------------------------------------------------------------------------------
// an accepted option takes effect: WebSocket origin checking
//
// case = (ws | wss) x every sequence of length 0..3 of SetOption(OptionWebSocketCheckOrigin, v),
// v in {true, false}, applied to a listener x {all before Listen, last one after Listen}.
// Every SetOption succeeds and GetOption answers the last value (true when never set).  Then a
// raw HTTP upgrade request carrying a foreign Origin header is sent: it is accepted (101) exactly
// when the last value set is false, and refused (403) otherwise; a request without an Origin
// header is always accepted (control: the listener works at all).

func init() {
	ekit.Register("C19", ekit.Scenario{Name: "ws-check-origin-takes-effect", Run: runOrigin})
	// C15: whatever the listener's options were set to, an accepted upgrade selects the SP subprotocol
	ekit.Register("C15", ekit.Scenario{Name: "ws-upgrade-selects-sp-subprotocol-under-every-origin-setting", Run: runOrigin})
}

func originSeqs() [][]bool {
	out := [][]bool{{}}
	for n := 1; n <= 3; n++ {
		for bits := 0; bits < 1<<n; bits++ {
			var s []bool
			for i := 0; i < n; i++ {
				s = append(s, bits&(1<<i) != 0)
			}
			out = append(out, s)
		}
	}
	return out
}

func runOrigin(st *ekit.Stats, tier string) {
	for _, tr := range []string{"ws", "wss"} {
		for _, seq := range originSeqs() {
			for _, lastAfterListen := range []bool{false, true} {
				if lastAfterListen && len(seq) == 0 {
					continue
				}
				in := fmt.Sprintf("%s listener, SetOption(%s) sequence %v, last one after Listen: %v", tr, ws.OptionWebSocketCheckOrigin, seq, lastAfterListen)
				fails := map[string]string{}
				for rep := 0; rep < 3 && (rep == 0 || len(fails) > 0); rep++ {
					f := originCase(tr, seq, lastAfterListen)
					if rep == 0 {
						fails = f
						continue
					}
					for k := range fails { // keep only what fails every time
						if _, ok := f[k]; !ok {
							delete(fails, k)
						}
					}
				}
				st.Case(len(seq) + 4)
				st.Nontrivial(in)
				for sig, msg := range fails {
					st.Fail(sig, "fail", in, "%s (3/3 runs)", msg)
				}
			}
		}
	}
}

func originCase(tr string, seq []bool, lastAfterListen bool) map[string]string {
	fails := map[string]string{}
	s, err := pair.NewSocket()
	if err != nil {
		return map[string]string{"origin-setup": err.Error()}
	}
	defer s.Close()
	l, err := s.NewListener(tr+"://127.0.0.1:0/origin", baseOpts(tr, true))
	if err != nil {
		return map[string]string{"origin-setup": "NewListener: " + err.Error()}
	}
	want := true // the documented default: origins are checked
	apply := func(v bool) {
		if err := l.SetOption(ws.OptionWebSocketCheckOrigin, v); err != nil {
			fails["origin-setoption-refused:"+tr] = fmt.Sprintf("SetOption(%v) returned %v", v, err)
		}
		want = v
		if g, err := l.GetOption(ws.OptionWebSocketCheckOrigin); err != nil || g != v {
			fails["get-after-set:"+tr+".listener.SetOption(\""+ws.OptionWebSocketCheckOrigin+"\")"] = fmt.Sprintf("after SetOption(%v) GetOption returned %v, %v", v, g, err)
		}
	}
	n := len(seq)
	if lastAfterListen {
		n--
	}
	for _, v := range seq[:n] {
		apply(v)
	}
	if err := l.Listen(); err != nil {
		return map[string]string{"origin-setup": "Listen: " + err.Error()}
	}
	if lastAfterListen {
		apply(seq[len(seq)-1])
	}
	u, _ := url.Parse(l.Address())
	for _, foreign := range []bool{false, true} {
		code, sub, err := rawUpgrade(tr, u.Host, u.Path, foreign)
		if err != nil {
			fails["origin-upgrade-error:"+tr] = err.Error()
			continue
		}
		if code == http.StatusSwitchingProtocols && sub != "pair.sp.nanomsg.org" {
			// whatever the origin options were set to, an accepted upgrade still selects the SP subprotocol
			fails["upgrade-without-sp-subprotocol:"+tr] = fmt.Sprintf("the upgrade was accepted (101) but the response selects the subprotocol %q instead of the offered pair.sp.nanomsg.org", sub)
		}
		switch {
		case !foreign && code != http.StatusSwitchingProtocols:
			fails["origin-control-refused:"+tr] = fmt.Sprintf("an upgrade request without an Origin header was answered with %d", code)
		case foreign && want && code == http.StatusSwitchingProtocols:
			fails["origin-check-not-in-effect:"+tr] = fmt.Sprintf("origin checking is on (last value set: true / default) but an upgrade request with a foreign Origin was accepted (%d)", code)
		case foreign && !want && code != http.StatusSwitchingProtocols:
			fails["origin-check-still-in-effect:"+tr] = fmt.Sprintf("origin checking was switched off but an upgrade request with a foreign Origin was answered with %d", code)
		}
	}
	return fails
}

// rawUpgrade sends one WebSocket upgrade request and returns the status code of the answer.
func rawUpgrade(tr, host, path string, foreignOrigin bool) (int, string, error) {
	var c net.Conn
	var err error
	d := &net.Dialer{Timeout: 10 * time.Second}
	if tr == "wss" {
		_, cli := tlsConfigs()
		c, err = tls.DialWithDialer(d, "tcp", host, cli)
	} else {
		c, err = d.Dial("tcp", host)
	}
	if err != nil {
		return 0, "", err
	}
	defer c.Close()
	_ = c.SetDeadline(time.Now().Add(20 * time.Second))
	req := "GET " + path + " HTTP/1.1\r\nHost: " + host + "\r\nUpgrade: websocket\r\nConnection: Upgrade\r\n" +
		"Sec-WebSocket-Key: dGhlIHNhbXBsZSBub25jZQ==\r\nSec-WebSocket-Version: 13\r\nSec-WebSocket-Protocol: pair.sp.nanomsg.org\r\n"
	if foreignOrigin {
		req += "Origin: http://elsewhere.example\r\n"
	}
	req += "\r\n"
	if _, err := c.Write([]byte(req)); err != nil {
		return 0, "", err
	}
	br := bufio.NewReader(c)
	line, err := br.ReadString('\n')
	if err != nil {
		return 0, "", err
	}
	f := strings.Fields(line)
	if len(f) < 2 {
		return 0, "", fmt.Errorf("bad status line %q", line)
	}
	var code int
	_, _ = fmt.Sscanf(f[1], "%d", &code)
	sub := ""
	for {
		h, err := br.ReadString('\n')
		if err != nil || strings.TrimSpace(h) == "" {
			break
		}
		if i := strings.Index(h, ":"); i > 0 && strings.EqualFold(strings.TrimSpace(h[:i]), "Sec-WebSocket-Protocol") {
			sub = strings.TrimSpace(h[i+1:])
		}
	}
	return code, sub, nil
}

var _ = mangos.OptionTLSConfig
