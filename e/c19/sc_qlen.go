package c19

import (
	"fmt"
	"time"

	"go.nanomsg.org/mangos/v3"
)

// Queue lengths: "changing a queue length never disconnects a peer" and an accepted length
// >= 1 leaves a socket that still moves messages.
//
// case = (protocol, READQ-LEN | WRITEQ-LEN, int value of the alphabet, idle | loaded)
//   idle:   connect, round trip, resize, round trip
//   loaded: both queue lengths preset to 1 before connecting, connect, round trip, push 4
//           unreceived messages in every direction (so the protocol's per-pipe goroutines sit
//           on full queues), resize, round trip.
// Each case is its own sub-case, so a crash in a background goroutine is attributed exactly.

type qlenCase struct {
	p         *proto
	opt       string
	v         val
	mode      string
	tr        string
	objListen bool
}

var qlenCasesCache = map[string][]qlenCase{}

// quick: inproc, object listens.  thorough: additionally tcp and ipc, and the object dialing.
func qlenCases(tier string) []qlenCase {
	if c, ok := qlenCasesCache[tier]; ok {
		return c
	}
	type link struct {
		tr     string
		listen bool
	}
	links := []link{{"inproc", true}}
	if tier == "thorough" {
		links = []link{{"inproc", true}, {"inproc", false}, {"tcp", true}, {"tcp", false}, {"ipc", true}, {"ipc", false}}
	}
	var cs []qlenCase
	for _, l := range links {
		for _, p := range protos {
			for _, opt := range []string{mangos.OptionReadQLen, mangos.OptionWriteQLen} {
				for _, v := range values() {
					if v.class != "int" {
						continue
					}
					for _, mode := range []string{"idle", "loaded"} {
						cs = append(cs, qlenCase{p, opt, v, mode, l.tr, l.listen})
					}
				}
			}
		}
	}
	qlenCasesCache[tier] = cs
	return cs
}

func runQlenCase(w *wctx, q qlenCase) {
	p := q.p
	call := fmt.Sprintf("%s.SetOption(%q,%s)", p.name, q.opt, q.v.label)
	label := fmt.Sprintf("%s on a connected socket, then traffic [%s]", call, q.mode)
	if q.tr != "inproc" || !q.objListen {
		label += fmt.Sprintf(" [%s, object %s]", q.tr, map[bool]string{true: "listens", false: "dials"}[q.objListen])
	}
	role := "listening on"
	if !q.objListen {
		role = "dialing a cooked peer over"
	}
	input := fmt.Sprintf("object: %s.NewSocket() %s %s, cooked %s peer, PipeEventHooks on both; mode %s; call: %s; then a round trip", p.name, role, q.tr, p.peer, q.mode, call)
	if !w.begin(label) {
		return
	}
	if q.v.label == "1<<31" {
		hugeBegin()
		defer hugeEnd(true)
	}
	pre := func(obj mangos.Socket) {}
	if q.mode == "loaded" {
		pre = func(obj mangos.Socket) {
			guard(func() {
				_ = obj.SetOption(mangos.OptionReadQLen, 1)
				_ = obj.SetOption(mangos.OptionWriteQLen, 1)
			})
		}
	}
	c, err := connectRetry(p, q.tr, q.objListen, pre)
	if err != nil {
		w.setupErr(err)
		return
	}
	defer c.close()

	before := c.move(10 * time.Second)
	if !before.ok {
		w.count("no-round-trip-before-resize")
	}
	if before.hung != "" || before.panic != "" {
		return // not this clause's business: nothing has been resized on a connected socket yet
	}
	if q.mode == "loaded" {
		if l := c.load(4); !l.ok {
			w.count("load-incomplete")
			return
		}
	}
	_, d0 := c.objEv.counts()
	_, pd0 := c.peerEv.counts()
	if d0 > 0 || pd0 > 0 {
		w.count("detached-before-resize")
		return
	}

	var serr error
	g := guardHuge(q.v.label == "1<<31", func() {
		if q.v.label == "1<<31" {
			hugeBarrier()
		}
		serr = c.obj.SetOption(q.opt, q.v.v)
	})
	switch {
	case g.panicked:
		w.fail("option-panic:"+call, "panic", input, "SetOption panicked: %s", g.pval)
		return
	case g.hung:
		w.fail("option-hang:"+call, "hang", input, "SetOption did not return within %v", callWatchdog)
		return
	case serr != nil:
		w.count("value-not-accepted")
		return
	}
	n := q.v.v.(int)
	w.nontrivial(fmt.Sprintf("%s|%s|%s|%s|%s|%v", p.name, q.opt, q.v.label, q.mode, q.tr, q.objListen))
	w.count("resized")

	wait := 10 * time.Second
	sfx := ""
	if n == 0 {
		wait = time.Second // only to produce traffic; an unbuffered queue need not move anything
		sfx = "=0"
		// one message towards the object while nobody receives, then a plain option call:
		// with an unbuffered queue the message may wait, the socket must stay responsive
		c.setStepDeadlines()
		if p.canRecv() {
			peerSend(c.peer, "zero-probe")
			time.Sleep(60 * time.Millisecond)
		}
		if g := guard(func() { _, _ = c.obj.GetOption(q.opt) }); g.hung {
			w.fail(fmt.Sprintf("qlen-hang:%s:%s=0:%s.GetOption", p.name, q.opt, p.name), "hang", input,
				"after the resize to 0 and one message from the peer, GetOption did not return within %v", callWatchdog)
			return
		}
	}
	after := c.move(wait)
	switch {
	case after.panic != "":
		w.fail(fmt.Sprintf("qlen-panic:%s:%s%s", p.name, q.opt, sfx), "panic", input, "after the resize: %s", after.panic)
	case after.hung != "":
		w.fail(fmt.Sprintf("qlen-hang:%s:%s%s:%s", p.name, q.opt, sfx, after.hung), "hang", input,
			"after the resize %s did not return within %v although a %v deadline is set", after.hung, callWatchdog, stepDeadline)
	case !after.ok && n >= 1 && before.ok:
		w.fail(fmt.Sprintf("qlen-stuck:%s:%s", p.name, q.opt), "fail", input,
			"a round trip worked before the resize; after the accepted resize to %d no message gets through for %v of retries (last: %s)", n, wait, after.detail)
	case after.ok:
		w.count("round-trip-after-resize")
	}
	time.Sleep(100 * time.Millisecond)
	_, d1 := c.objEv.counts()
	_, pd1 := c.peerEv.counts()
	if d1 > d0 || pd1 > pd0 {
		w.fail(fmt.Sprintf("qlen-detach:%s:%s", p.name, q.opt), "fail", input,
			"PipeEventDetached fired after the resize (object side %d, peer side %d)", d1-d0, pd1-pd0)
	}
}

func qlenScenario() *scenario {
	return &scenario{
		name:   "qlen-resize-connected",
		par:    28,
		ncases: func(tier string) int { return len(qlenCases(tier)) },
		run:    func(tier string, idx int, w *wctx) { runQlenCase(w, qlenCases(tier)[idx]) },
		huge:   func(tier string, idx int) bool { return qlenCases(tier)[idx].v.label == "1<<31" },
	}
}
