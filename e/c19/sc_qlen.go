package c19

import (
	"fmt"
	"time"

	"go.nanomsg.org/mangos/v3"
)

// Queue lengths: "changing a queue length never disconnects a peer" and an accepted length
// >= 1 leaves a socket that still moves messages.
//
// case = (protocol, READQ-LEN | WRITEQ-LEN, int value of the alphabet, idle | loaded)
//   idle:   connect, round trip, resize, round trip
//   loaded: both queue lengths preset to 1 before connecting, connect, round trip, push 4
//           unreceived messages in every direction (so the protocol's per-pipe goroutines sit
//           on full queues), resize, round trip.
// Each case is its own sub-case, so a crash in a background goroutine is attributed exactly.

type qlenCase struct {
	p    *proto
	opt  string
	v    val
	mode string
}

var qlenCasesCache []qlenCase

func qlenCases() []qlenCase {
	if qlenCasesCache != nil {
		return qlenCasesCache
	}
	var cs []qlenCase
	for _, p := range protos {
		for _, opt := range []string{mangos.OptionReadQLen, mangos.OptionWriteQLen} {
			for _, v := range values() {
				if v.class != "int" {
					continue
				}
				for _, mode := range []string{"idle", "loaded"} {
					cs = append(cs, qlenCase{p, opt, v, mode})
				}
			}
		}
	}
	qlenCasesCache = cs
	return cs
}

func runQlenCase(w *wctx, q qlenCase) {
	p := q.p
	call := fmt.Sprintf("%s.SetOption(%q,%s)", p.name, q.opt, q.v.label)
	label := fmt.Sprintf("%s on a connected socket, then traffic [%s]", call, q.mode)
	input := fmt.Sprintf("object: %s.NewSocket() listening on inproc, cooked %s peer dialed in, PipeEventHooks on both; mode %s; call: %s; then a round trip", p.name, p.peer, q.mode, call)
	if !w.begin(label) {
		return
	}
	if q.v.label == "1<<31" {
		hugeBegin()
		defer hugeEnd(true)
	}
	pre := func(obj mangos.Socket) {}
	if q.mode == "loaded" {
		pre = func(obj mangos.Socket) {
			guard(func() {
				_ = obj.SetOption(mangos.OptionReadQLen, 1)
				_ = obj.SetOption(mangos.OptionWriteQLen, 1)
			})
		}
	}
	c, err := connectRetry(p, "inproc", true, pre)
	if err != nil {
		w.setupErr(err)
		return
	}
	defer c.close()

	before := c.move(10 * time.Second)
	if !before.ok {
		w.count("no-round-trip-before-resize")
	}
	if before.hung != "" || before.panic != "" {
		return // not this clause's business: nothing has been resized on a connected socket yet
	}
	if q.mode == "loaded" {
		if l := c.load(4); !l.ok {
			w.count("load-incomplete")
			return
		}
	}
	_, d0 := c.objEv.counts()
	_, pd0 := c.peerEv.counts()
	if d0 > 0 || pd0 > 0 {
		w.count("detached-before-resize")
		return
	}

	var serr error
	g := guard(func() { serr = c.obj.SetOption(q.opt, q.v.v) })
	switch {
	case g.panicked:
		w.fail("option-panic:"+call, "panic", input, "SetOption panicked: %s", g.pval)
		return
	case g.hung:
		w.fail("option-hang:"+call, "hang", input, "SetOption did not return within %v", callWatchdog)
		return
	case serr != nil:
		w.count("value-not-accepted")
		return
	}
	n := q.v.v.(int)
	w.nontrivial(fmt.Sprintf("%s|%s|%s|%s", p.name, q.opt, q.v.label, q.mode))
	w.count("resized")

	wait := 10 * time.Second
	if n == 0 {
		wait = time.Second // only to produce traffic; an unbuffered queue need not move anything
	}
	after := c.move(wait)
	sfx := ""
	if n == 0 {
		sfx = "=0"
	}
	switch {
	case after.panic != "":
		w.fail(fmt.Sprintf("qlen-panic:%s:%s%s", p.name, q.opt, sfx), "panic", input, "after the resize: %s", after.panic)
	case after.hung != "":
		w.fail(fmt.Sprintf("qlen-hang:%s:%s%s:%s", p.name, q.opt, sfx, after.hung), "hang", input,
			"after the resize %s did not return within %v although a %v deadline is set", after.hung, callWatchdog, stepDeadline)
	case !after.ok && n >= 1 && before.ok:
		w.fail(fmt.Sprintf("qlen-stuck:%s:%s", p.name, q.opt), "fail", input,
			"a round trip worked before the resize; after the accepted resize to %d no message gets through for %v of retries (last: %s)", n, wait, after.detail)
	case after.ok:
		w.count("round-trip-after-resize")
	}
	time.Sleep(100 * time.Millisecond)
	_, d1 := c.objEv.counts()
	_, pd1 := c.peerEv.counts()
	if d1 > d0 || pd1 > pd0 {
		w.fail(fmt.Sprintf("qlen-detach:%s:%s", p.name, q.opt), "fail", input,
			"PipeEventDetached fired after the resize (object side %d, peer side %d)", d1-d0, pd1-pd0)
	}
}

func qlenScenario() *scenario {
	return &scenario{
		name:   "qlen-resize-connected",
		par:    14,
		ncases: func(string) int { return len(qlenCases()) },
		run:    func(tier string, idx int, w *wctx) { runQlenCase(w, qlenCases()[idx]) },
		huge:   func(tier string, idx int) bool { return qlenCases()[idx].v.label == "1<<31" },
	}
}
