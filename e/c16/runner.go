// Package c16 is the engine E harness of property C16 (a hostile or broken peer cannot
// crash, stall or pollute a socket) on the REAL stream transports: tcp, tls+tcp, ipc, ws,
// wss.  A mangos socket listens on (role "listen") or dials (role "dial") the transport; the
// hostile peer is a raw net.Conn / tls.Conn / unix connection / hand written RFC 6455
// endpoint of this package; well behaved control peers (real mangos sockets of the peer
// protocol on the same transport) are connected to the same socket.
//
// This file is the runner.  Every scenario is a finite, indexable list of cases.  Cases are
// evaluated by worker subprocesses (this same binary, selected by VE_C16_WORKER) so that a
// panic in a mangos goroutine is attributed to the case that provoked it instead of killing
// the run.  The parent hands out index ranges over the worker's stdin:
//
//	RUN <from> <to>
//
// and the worker answers with
//
//	P <idx> <label>       before each case (label = the exact input)
//	D <json caseResult>   when the case is finished
//	E                     when the range is finished
//
// If the worker dies or makes no progress for stallLimit, the last P line names the guilty
// case.  Every suspected failure is evaluated three more times, each in a fresh worker that
// runs this one case only; only failures that show in 3 of 3 replays are reported.
package c16

import (
	"bufio"
	"bytes"
	"encoding/json"
	"fmt"
	"io"
	"os"
	"os/exec"
	"regexp"
	"runtime"
	"sort"
	"strconv"
	"strings"
	"sync"
	"sync/atomic"
	"time"

	"go.nanomsg.org/mangos/v3/ve/ekit"
)

// tcase is one case: label is the exact input (replayable by hand), run evaluates it.
type tcase struct {
	label string
	run   func(c *cctx)
}

type scenario struct {
	name  string
	cases func(tier string) []tcase
	chunk int // cases per job (consecutive indices share the job's cache)
}

var scenarios []*scenario

func scenarioByName(n string) *scenario {
	for _, s := range scenarios {
		if s.name == n {
			return s
		}
	}
	return nil
}

type failure struct {
	Sig   string `json:"sig"`
	Kind  string `json:"kind"`
	Input string `json:"input"`
	Msg   string `json:"msg"`
}

type caseResult struct {
	Idx        int            `json:"idx"`
	Ops        int            `json:"ops"`
	Nontrivial []string       `json:"nontrivial,omitempty"`
	Counts     map[string]int `json:"counts,omitempty"`
	Fails      []failure      `json:"fails,omitempty"`
	SetupErr   string         `json:"setup_err,omitempty"`
	Ms         int64          `json:"ms"`
}

// closer is something cached for the duration of one job.
type closer interface{ close() }

type jobState struct {
	cache map[string]closer
}

func (j *jobState) drop(key string) {
	if c, ok := j.cache[key]; ok {
		delete(j.cache, key)
		c.close()
	}
}

func (j *jobState) closeAll() {
	for k, c := range j.cache {
		delete(j.cache, k)
		c.close()
	}
}

// cctx is what a case sees inside the worker.
type cctx struct {
	res   *caseResult
	job   *jobState
	label string
}

func (c *cctx) fail(sig, kind, format string, a ...interface{}) {
	for _, f := range c.res.Fails {
		if f.Sig == sig {
			return
		}
	}
	c.res.Fails = append(c.res.Fails, failure{Sig: sig, Kind: kind, Input: c.label, Msg: fmt.Sprintf(format, a...)})
}

func (c *cctx) failed() bool        { return len(c.res.Fails) > 0 }
func (c *cctx) ops(n int)           { c.res.Ops += n }
func (c *cctx) nontrivial(k string) { c.res.Nontrivial = append(c.res.Nontrivial, k) }
func (c *cctx) count(name string) {
	if c.res.Counts == nil {
		c.res.Counts = map[string]int{}
	}
	c.res.Counts[name]++
}

// setupErr: the harness could not set the case up (not a verdict about mangos).
func (c *cctx) setupErr(format string, a ...interface{}) {
	c.count("setup-error")
	if c.res.SetupErr == "" {
		c.res.SetupErr = firstLine(fmt.Sprintf(format, a...))
	}
}

func firstLine(s string) string {
	if i := strings.IndexByte(s, '\n'); i >= 0 {
		s = s[:i]
	}
	if len(s) > 300 {
		s = s[:300]
	}
	return s
}

// ---------------------------------------------------------------------------------------
// worker side

const (
	envWorker = "VE_C16_WORKER"
	envTier   = "VE_C16_TIER"
	envTmp    = "VE_C16_TMP"
)

func init() {
	registerAll()
	if n := os.Getenv(envWorker); n != "" {
		workerMain(n)
		os.Exit(0)
	}
	// VE_C16_LIST=<scenario> prints "<index> <label>" of every case (tier from VE_C16_TIER);
	// a single case is replayed by hand with
	//   echo "RUN <index> <index+1>" | VE_C16_WORKER=<scenario> VE_C16_TIER=<tier> VE_C16_TMP=<dir> ve.bin
	if n := os.Getenv("VE_C16_LIST"); n != "" {
		if sc := scenarioByName(n); sc != nil {
			for i, tc := range sc.cases(os.Getenv(envTier)) {
				fmt.Printf("%d %s\n", i, tc.label)
			}
		}
		os.Exit(0)
	}
}

func workerMain(name string) {
	sc := scenarioByName(name)
	if sc == nil {
		fmt.Fprintln(os.Stderr, "c16 worker: no scenario", name)
		os.Exit(3)
	}
	tier := os.Getenv(envTier)
	if t := os.Getenv(envTmp); t != "" {
		ekit.Tmp = t
	}
	installLedger()
	cases := sc.cases(tier)
	in := bufio.NewScanner(os.Stdin)
	out := bufio.NewWriterSize(os.Stdout, 1<<16)
	for in.Scan() {
		f := strings.Fields(in.Text())
		if len(f) != 3 || f[0] != "RUN" {
			continue
		}
		from, _ := strconv.Atoi(f[1])
		to, _ := strconv.Atoi(f[2])
		job := &jobState{cache: map[string]closer{}}
		for idx := from; idx < to && idx < len(cases); idx++ {
			tc := cases[idx]
			fmt.Fprintf(out, "P %d %s\n", idx, tc.label)
			_ = out.Flush()
			c := &cctx{res: &caseResult{Idx: idx}, job: job, label: tc.label}
			t0 := time.Now()
			tc.run(c)
			c.res.Ms = time.Since(t0).Milliseconds()
			b, _ := json.Marshal(c.res)
			fmt.Fprintf(out, "D %s\n", b)
			_ = out.Flush()
		}
		job.closeAll()
		fmt.Fprintf(out, "E\n")
		_ = out.Flush()
	}
}

// ---------------------------------------------------------------------------------------
// parent side

// stallLimit: a case consists of a handful of steps each guarded by the 10 s watchdog; a
// worker that prints nothing for this long is stuck inside mangos (e.g. Close never returns).
const stallLimit = 120 * time.Second

type capBuf struct {
	mu sync.Mutex
	b  bytes.Buffer
}

func (c *capBuf) Write(p []byte) (int, error) {
	c.mu.Lock()
	if c.b.Len() < 512<<10 {
		c.b.Write(p)
	}
	c.mu.Unlock()
	return len(p), nil
}

func (c *capBuf) String() string {
	c.mu.Lock()
	defer c.mu.Unlock()
	return c.b.String()
}

type worker struct {
	cmd   *exec.Cmd
	in    io.WriteCloser
	lines chan string
	errb  *capBuf
}

func startWorker(sc *scenario, tier string) (*worker, error) {
	w := &worker{errb: &capBuf{}, lines: make(chan string, 1024)}
	w.cmd = exec.Command(os.Args[0])
	w.cmd.Env = append(os.Environ(), envWorker+"="+sc.name, envTier+"="+tier, envTmp+"="+ekit.Tmp, "GOTRACEBACK=all")
	w.cmd.Stderr = w.errb
	var err error
	if w.in, err = w.cmd.StdinPipe(); err != nil {
		return nil, err
	}
	out, err := w.cmd.StdoutPipe()
	if err != nil {
		return nil, err
	}
	if err = w.cmd.Start(); err != nil {
		return nil, err
	}
	go func() {
		s := bufio.NewScanner(out)
		s.Buffer(make([]byte, 1<<16), 16<<20)
		for s.Scan() {
			w.lines <- s.Text()
		}
		close(w.lines)
	}()
	return w, nil
}

func (w *worker) stop() {
	if w == nil || w.cmd == nil {
		return
	}
	_ = w.in.Close()
	done := make(chan struct{})
	go func() { _ = w.cmd.Wait(); close(done) }()
	select {
	case <-done:
	case <-time.After(3 * time.Second):
		_ = w.cmd.Process.Kill()
		<-done
	}
}

func (w *worker) kill() {
	_ = w.cmd.Process.Kill()
	_ = w.cmd.Wait()
}

var digits = regexp.MustCompile(`[0-9]+`)

// crashInfo keeps the informative part of a Go crash dump: the panic / fatal line and the
// first mangos frames (the harness' own frames under /ve/ are skipped).
func crashInfo(s string) (sig, msg string) {
	var head string
	var frames []string
	for _, ln := range strings.Split(s, "\n") {
		t := strings.TrimSpace(ln)
		switch {
		case head == "" && (strings.HasPrefix(t, "panic:") || strings.HasPrefix(t, "fatal error:")):
			head = t
		case head != "" && strings.HasPrefix(t, "go.nanomsg.org/mangos/v3") && !strings.Contains(t, "/ve/") && !strings.Contains(t, ".go:") && len(frames) < 4:
			if i := strings.LastIndexByte(t, '('); i > 0 {
				t = t[:i]
			}
			frames = append(frames, t)
		}
	}
	if head == "" {
		if len(s) > 400 {
			s = s[len(s)-400:]
		}
		return "worker-died-without-panic-message", strings.TrimSpace(s)
	}
	first := "no-mangos-frame"
	if len(frames) > 0 {
		first = frames[0]
	}
	h := head
	if i := strings.Index(h, " [recovered]"); i > 0 {
		h = h[:i]
	}
	if len(h) > 120 {
		h = h[:120]
	}
	sig = digits.ReplaceAllString(h, "N") + " at " + first
	msg = head
	if len(frames) > 0 {
		msg += "; at " + strings.Join(frames, " <- ")
	}
	return sig, msg
}

// runRange evaluates cases [from,to) with the worker *wp, replacing it when it dies.
func runRange(sc *scenario, tier string, wp **worker, from, to int, results map[int]*caseResult, mu *sync.Mutex) (intern string) {
	next := from
	restarts := 0
	for next < to {
		if *wp == nil {
			w, err := startWorker(sc, tier)
			if err != nil {
				return "cannot start worker: " + err.Error()
			}
			*wp = w
		}
		w := *wp
		if _, err := fmt.Fprintf(w.in, "RUN %d %d\n", next, to); err != nil {
			w.kill()
			*wp = nil
			restarts++
			if restarts > 3 {
				return "worker not accepting input: " + err.Error() + "; " + firstLine(w.errb.String())
			}
			continue
		}
		cur := -1
		curLabel := ""
		timer := time.NewTimer(stallLimit)
		finished := false
		for !finished {
			select {
			case ln, ok := <-w.lines:
				if !ok {
					_ = w.cmd.Wait()
					*wp = nil
					if cur < 0 {
						restarts++
						if restarts > 3 {
							timer.Stop()
							return fmt.Sprintf("worker died outside a case (next case %d): %s", next, firstLine(w.errb.String()))
						}
					} else {
						sig, msg := crashInfo(w.errb.String())
						mu.Lock()
						results[cur] = &caseResult{Idx: cur, Fails: []failure{{Sig: "C16/" + sc.name + "/panic: " + sig, Kind: "panic", Input: curLabel,
							Msg: "the process died while this case was running: " + msg}}}
						mu.Unlock()
						next = cur + 1
					}
					finished = true
					break
				}
				if !timer.Stop() {
					select {
					case <-timer.C:
					default:
					}
				}
				timer.Reset(stallLimit)
				switch {
				case strings.HasPrefix(ln, "P "):
					f := strings.SplitN(ln, " ", 3)
					if len(f) == 3 {
						cur, _ = strconv.Atoi(f[1])
						curLabel = f[2]
					}
				case strings.HasPrefix(ln, "D "):
					var r caseResult
					if err := json.Unmarshal([]byte(ln[2:]), &r); err != nil {
						w.kill()
						*wp = nil
						timer.Stop()
						return "bad result line: " + err.Error()
					}
					mu.Lock()
					results[r.Idx] = &r
					mu.Unlock()
					next = r.Idx + 1
					cur = -1
				case ln == "E":
					next = to
					finished = true
				}
			case <-timer.C:
				w.kill()
				*wp = nil
				if cur < 0 {
					return fmt.Sprintf("worker stalled outside a case (next case %d)", next)
				}
				mu.Lock()
				results[cur] = &caseResult{Idx: cur, Fails: []failure{{Sig: "C16/" + sc.name + "/worker-stalled", Kind: "hang", Input: curLabel,
					Msg: fmt.Sprintf("the worker made no progress for %v inside this case (every step of a case is guarded by a %v watchdog, so a mangos call such as Close did not return)", stallLimit, watchdog)}}}
				mu.Unlock()
				next = cur + 1
				finished = true
			}
		}
		timer.Stop()
	}
	return ""
}

func maxWorkers() int {
	n := runtime.NumCPU()
	if n > 16 {
		n = 16
	}
	if n < 2 {
		n = 2
	}
	return n
}

// runScenario is the ekit Scenario.Run body.
func runScenario(sc *scenario, st *ekit.Stats, tier string) {
	cases := sc.cases(tier)
	n := len(cases)
	chunk := sc.chunk
	if chunk <= 0 {
		chunk = 8
	}
	njobs := (n + chunk - 1) / chunk
	par := maxWorkers()
	if par > njobs {
		par = njobs
	}
	results := map[int]*caseResult{}
	var mu sync.Mutex
	var interns []string
	var nextJob int64 = -1
	var wg sync.WaitGroup
	for i := 0; i < par; i++ {
		wg.Add(1)
		go func() {
			defer wg.Done()
			var w *worker
			defer func() { w.stop() }()
			for {
				if st.OutOfTime() {
					return
				}
				j := int(atomic.AddInt64(&nextJob, 1))
				if j >= njobs {
					return
				}
				from, to := j*chunk, (j+1)*chunk
				if to > n {
					to = n
				}
				if s := runRange(sc, tier, &w, from, to, results, &mu); s != "" {
					mu.Lock()
					interns = append(interns, s)
					mu.Unlock()
					return
				}
			}
		}()
	}
	wg.Wait()

	setupErrs, setupMsg := 0, ""
	var suspects []int
	slow := []string{}
	for idx := 0; idx < n; idx++ {
		r := results[idx]
		if r == nil {
			continue
		}
		st.Case(r.Ops)
		for _, k := range r.Nontrivial {
			st.Nontrivial(k)
		}
		for k, c := range r.Counts {
			for i := 0; i < c; i++ {
				st.Count(k)
			}
			if k == "setup-error" {
				setupErrs += c
				setupMsg = r.SetupErr + " [" + cases[idx].label + "]"
			}
		}
		if len(r.Fails) > 0 {
			suspects = append(suspects, idx)
		}
		if r.Ms > 3000 {
			slow = append(slow, fmt.Sprintf("%dms %s", r.Ms, cases[idx].label))
		}
	}
	if os.Getenv("VE_C16_DEBUG") != "" {
		for _, s := range slow {
			fmt.Fprintln(os.Stderr, "c16 slow:", sc.name, s)
		}
	}
	if len(results) < n {
		st.Cap(fmt.Sprintf("out of time after %d of %d cases", len(results), n))
	}
	if setupErrs > 0 {
		st.Cap(fmt.Sprintf("%d cases could not be set up (e.g. %s)", setupErrs, setupMsg))
	}
	if n > 0 {
		st.Sample(cases[0].label)
		st.Sample(cases[n/2].label)
		st.Sample(cases[n-1].label)
	}

	// Confirmation.  Suspects are grouped by signature; for each signature up to three cases
	// are replayed (3 fresh single-case workers each); the signature is reported with the
	// first case that fails 3/3, the other cases only bump its count.
	bySig := map[string][]int{}
	var sigs []string
	for _, idx := range suspects {
		for _, f := range results[idx].Fails {
			if _, ok := bySig[f.Sig]; !ok {
				sigs = append(sigs, f.Sig)
			}
			bySig[f.Sig] = append(bySig[f.Sig], idx)
		}
	}
	sort.Strings(sigs)
	type verdict struct {
		confirmed bool
		idx       int
		hits      int
	}
	verdicts := make([]verdict, len(sigs))
	var cwg sync.WaitGroup
	sem := make(chan struct{}, maxWorkers())
	for si, sig := range sigs {
		cwg.Add(1)
		go func(si int, sig string) {
			defer cwg.Done()
			idxs := bySig[sig]
			if len(idxs) > 3 {
				idxs = idxs[:3]
			}
			for _, idx := range idxs {
				hits := 0
				var hmu sync.Mutex
				var rwg sync.WaitGroup
				for rep := 0; rep < 3; rep++ {
					rwg.Add(1)
					sem <- struct{}{}
					go func() {
						defer rwg.Done()
						defer func() { <-sem }()
						var w *worker
						res := map[int]*caseResult{}
						var rmu sync.Mutex
						_ = runRange(sc, tier, &w, idx, idx+1, res, &rmu)
						w.stop()
						if r := res[idx]; r != nil {
							for _, f := range r.Fails {
								if f.Sig == sig {
									hmu.Lock()
									hits++
									hmu.Unlock()
									break
								}
							}
						}
					}()
				}
				rwg.Wait()
				verdicts[si] = verdict{confirmed: hits == 3, idx: idx, hits: hits}
				if hits == 3 {
					return
				}
			}
		}(si, sig)
	}
	cwg.Wait()
	for si, sig := range sigs {
		v := verdicts[si]
		var f failure
		for _, x := range results[v.idx].Fails {
			if x.Sig == sig {
				f = x
			}
		}
		if v.confirmed {
			for i := range bySig[sig] {
				if i == 0 {
					st.Fail(f.Sig, f.Kind, f.Input, "%s (reproduced in 3/3 fresh single-case workers; %d case(s) of this scenario fail with this signature)", f.Msg, len(bySig[sig]))
				} else {
					st.Fail(f.Sig, f.Kind, f.Input, "")
				}
			}
		} else {
			st.Count("unconfirmed-failure")
			if len(st.Note) < 4000 {
				st.Note += fmt.Sprintf("[not reported, failed in only %d of 3 replays: %s | %s | %s] ", v.hits, f.Sig, f.Input, f.Msg)
			}
		}
	}
	if len(interns) > 0 {
		if len(interns) > 3 {
			interns = append(interns[:3], fmt.Sprintf("... and %d more", len(interns)-3))
		}
		panic("c16 harness: " + strings.Join(interns, " | "))
	}
}

func register(sc *scenario) {
	scenarios = append(scenarios, sc)
	ekit.Register("C16", ekit.Scenario{Name: sc.name, Run: func(st *ekit.Stats, tier string) { runScenario(sc, st, tier) }})
}

// alsoUnder runs a scenario under another property as well (C12: rejecting or losing a connection
// at any stage of the handshake never stops a listener from accepting or a dialer from redialling;
// C15: a conformant peer is served beside non-conformant ones; C13: while a peer is silent before /
// during the TLS handshake, before the SP header or before the WebSocket upgrade, every other
// connection still gets its Attaching / Attached and is served).
func alsoUnder(prop string, sc *scenario) {
	ekit.Register(prop, ekit.Scenario{Name: sc.name, Run: func(st *ekit.Stats, tier string) { runScenario(sc, st, tier) }})
}

func registerAll() {
	alsoUnder("C12", scHandshake)
	alsoUnder("C12", scWS)
	alsoUnder("C15", scWS)
	alsoUnder("C15", scHandshake)
	alsoUnder("C13", scHandshake)
	alsoUnder("C13", scWS)
	register(scHandshake)
	register(scMessage)
	register(scWS)
	register(scProto)
}
