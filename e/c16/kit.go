package c16

import (
	"bytes"
	"crypto/tls"
	"fmt"
	"io"
	"net"
	"os"
	"path/filepath"
	"strings"
	"sync"
	"sync/atomic"
	"time"

	"go.nanomsg.org/mangos/v3"
	itest "go.nanomsg.org/mangos/v3/internal/test"
	"go.nanomsg.org/mangos/v3/protocol/bus"
	"go.nanomsg.org/mangos/v3/ve/ekit"

	_ "go.nanomsg.org/mangos/v3/transport/ipc"
	_ "go.nanomsg.org/mangos/v3/transport/tcp"
	_ "go.nanomsg.org/mangos/v3/transport/tlstcp"
	_ "go.nanomsg.org/mangos/v3/transport/ws"
	_ "go.nanomsg.org/mangos/v3/transport/wss"
)

const (
	roleListen = "listen" // the mangos socket listens, the hostile peer connects
	roleDial   = "dial"   // the mangos socket dials the hostile peer's raw listener
)

var roles = []string{roleListen, roleDial}

const wsPath = "/c16"

// protocol number of BUS (harness' own table, not read from mangos)
const protoBus = 7 * 16

// ---------------------------------------------------------------------------------
// allocation ledger: the requested size of every NewMessage since the last reset
// ---------------------------------------------------------------------------------

type ledger struct {
	mu    sync.Mutex
	sizes map[int]int
}

var led = &ledger{sizes: map[int]int{}}

func installLedger() {
	mangos.VerifLedgerHook = func(ev int, m *mangos.Message, sz int) {
		if ev == 0 {
			led.mu.Lock()
			led.sizes[sz]++
			led.mu.Unlock()
		}
	}
}

func (l *ledger) reset() {
	l.mu.Lock()
	l.sizes = map[int]int{}
	l.mu.Unlock()
}

func (l *ledger) saw(sz int) bool {
	l.mu.Lock()
	defer l.mu.Unlock()
	return l.sizes[sz] > 0
}

// maxExcluding is the largest requested size, not counting the given sizes (those of the
// harness' own control messages).
func (l *ledger) maxExcluding(excl ...int) int {
	l.mu.Lock()
	defer l.mu.Unlock()
	max := -1
outer:
	for sz := range l.sizes {
		for _, e := range excl {
			if sz == e {
				continue outer
			}
		}
		if sz > max {
			max = sz
		}
	}
	return max
}

// ---------------------------------------------------------------------------------
// TLS material
// ---------------------------------------------------------------------------------

var (
	tlsOnce sync.Once
	srvCfg  *tls.Config
	cliCfg  *tls.Config
	tlsErr  error
)

func tlsConfigs() (*tls.Config, *tls.Config, error) {
	tlsOnce.Do(func() { srvCfg, cliCfg, _, tlsErr = itest.NewTLSConfig() })
	return srvCfg, cliCfg, tlsErr
}

func tlsWrapped(tran string) bool { return tran == "tls+tcp" || tran == "wss" }
func isWS(tran string) bool       { return tran == "ws" || tran == "wss" }

// ---------------------------------------------------------------------------------
// pipe event log
// ---------------------------------------------------------------------------------

type evlog struct {
	mu       sync.Mutex
	attached []uint32
	detached int
	ch       chan struct{}
}

func newEvlog() *evlog { return &evlog{ch: make(chan struct{}, 1)} }

func (e *evlog) hook(ev mangos.PipeEvent, p mangos.Pipe) {
	e.mu.Lock()
	switch ev {
	case mangos.PipeEventAttached:
		e.attached = append(e.attached, p.ID())
	case mangos.PipeEventDetached:
		e.detached++
	}
	e.mu.Unlock()
	select {
	case e.ch <- struct{}{}:
	default:
	}
}

func (e *evlog) nAttached() int {
	e.mu.Lock()
	defer e.mu.Unlock()
	return len(e.attached)
}

func (e *evlog) nDetached() int {
	e.mu.Lock()
	defer e.mu.Unlock()
	return e.detached
}

func (e *evlog) lastID() uint32 {
	e.mu.Lock()
	defer e.mu.Unlock()
	if len(e.attached) == 0 {
		return 0
	}
	return e.attached[len(e.attached)-1]
}

func (e *evlog) wait(cond func() bool, d time.Duration) bool {
	deadline := time.NewTimer(d)
	defer deadline.Stop()
	for {
		e.mu.Lock()
		ok := cond()
		e.mu.Unlock()
		if ok {
			return true
		}
		tick := time.NewTimer(20 * time.Millisecond)
		select {
		case <-e.ch:
			tick.Stop()
		case <-tick.C:
		case <-deadline.C:
			tick.Stop()
			e.mu.Lock()
			ok = cond()
			e.mu.Unlock()
			return ok
		}
	}
}

func (e *evlog) waitAttached(n int) bool {
	return e.wait(func() bool { return len(e.attached) >= n }, watchdog)
}

func (e *evlog) waitDetached(n int) bool {
	return e.wait(func() bool { return e.detached >= n }, watchdog)
}

// ---------------------------------------------------------------------------------
// the socket under test
// ---------------------------------------------------------------------------------

var uniq uint64

func sockPath(tag string) string {
	n := atomic.AddUint64(&uniq, 1)
	_ = os.MkdirAll(ekit.Tmp, 0o755)
	return filepath.Join(ekit.Tmp, fmt.Sprintf("c16-%s-%d-%d.sock", tag, os.Getpid(), n))
}

// rmsg is one message the application received.
type rmsg struct {
	hdr  []byte
	body []byte
}

// sut is the mangos socket under test with its listener (control peers, and in role listen
// the hostile peer, connect to it) and in role dial the hostile peer's raw listener.
type sut struct {
	noTLSHostile bool // the hostile peer connects at TCP level only and never starts the TLS handshake
	tran  string
	role  string
	sock  mangos.Socket
	ev    *evlog
	pump  chan rmsg
	maxrx int // effective receive limit

	maddr   string // mangos address of the listener
	rawNet  string
	rawAddr string
	path    string

	lst    mangos.Listener // the socket's listener (control peers, hostile peers in role listen)
	dlr    mangos.Dialer   // role dial: the dialer that connects to the hostile peer
	hln    net.Listener // role dial: raw listener of the hostile peer
	hpath  string
	haddr  string // mangos address of hln
	acc    chan net.Conn
	dialed bool

	mu     sync.Mutex
	held   []net.Conn
	ctls   []*ctl
	ctlSeq int
}

func (s *sut) ipc() bool { return s.tran == "ipc" }

func (s *sut) limitText() string {
	if s.maxrx == 1<<62 {
		return "0 = none"
	}
	return fmt.Sprint(s.maxrx)
}

// where is the suffix of failure signatures.
func (s *sut) where() string { return s.tran + "/" + s.role }

// noLimit as maxrx of newSUT sets MaxRecvSize to 0 (limit switched off).
const noLimit = -1

// newSUT creates the socket under test.  maxrx 0 keeps the default limit (1 MiB); the limit
// is set on the socket, listeners and dialers inherit it.  withPump starts a goroutine that
// receives everything the application can see.
func newSUT(mk func() (mangos.Socket, error), tran, role string, maxrx int, withPump bool) (*sut, error) {
	s := &sut{tran: tran, role: role, ev: newEvlog(), maxrx: 1 << 20}
	sock, err := mk()
	if err != nil {
		return nil, err
	}
	s.sock = sock
	sock.SetPipeEventHook(s.ev.hook)
	_ = sock.SetOption(mangos.OptionSendDeadline, watchdog)
	if maxrx == noLimit {
		// MaxRecvSize 0 switches the limit off; negative lengths stay invalid
		if err = sock.SetOption(mangos.OptionMaxRecvSize, 0); err != nil {
			_ = sock.Close()
			return nil, fmt.Errorf("SetOption(MaxRecvSize,0): %v", err)
		}
		s.maxrx = 1 << 62
	} else if maxrx > 0 {
		if err = sock.SetOption(mangos.OptionMaxRecvSize, maxrx); err != nil {
			_ = sock.Close()
			return nil, fmt.Errorf("SetOption(MaxRecvSize,%d): %v", maxrx, err)
		}
		s.maxrx = maxrx
	}
	scfg, _, err := tlsConfigs()
	if err != nil {
		_ = sock.Close()
		return nil, err
	}
	var addr string
	opts := map[string]interface{}{}
	switch tran {
	case "tcp":
		addr = "tcp://127.0.0.1:0"
	case "tls+tcp":
		addr = "tls+tcp://127.0.0.1:0"
		opts[mangos.OptionTLSConfig] = scfg
	case "ipc":
		s.path = sockPath("l")
		addr = "ipc://" + s.path
	case "ws":
		addr = "ws://127.0.0.1:0" + wsPath
	case "wss":
		addr = "wss://127.0.0.1:0" + wsPath
		opts[mangos.OptionTLSConfig] = scfg
	default:
		_ = sock.Close()
		return nil, fmt.Errorf("unknown transport %s", tran)
	}
	l, err := sock.NewListener(addr, opts)
	if err != nil {
		_ = sock.Close()
		return nil, fmt.Errorf("NewListener(%s): %v", addr, err)
	}
	if err = l.Listen(); err != nil {
		_ = sock.Close()
		return nil, fmt.Errorf("Listen(%s): %v", addr, err)
	}
	s.maddr = l.Address()
	s.lst = l
	if tran == "ipc" {
		s.rawNet, s.rawAddr = "unix", s.path
	} else {
		rest := s.maddr[strings.Index(s.maddr, "://")+3:]
		if j := strings.Index(rest, "/"); j >= 0 {
			rest = rest[:j]
		}
		s.rawNet, s.rawAddr = "tcp", rest
	}
	if role == roleDial {
		var ln net.Listener
		if tran == "ipc" {
			s.hpath = sockPath("h")
			ln, err = net.Listen("unix", s.hpath)
			s.haddr = "ipc://" + s.hpath
		} else {
			ln, err = net.Listen("tcp", "127.0.0.1:0")
			if err == nil {
				s.haddr = tran + "://" + ln.Addr().String()
				if isWS(tran) {
					s.haddr += wsPath
				}
			}
		}
		if err != nil {
			s.close()
			return nil, err
		}
		s.hln = ln
		s.acc = make(chan net.Conn, 256)
		go func() {
			for {
				c, e := ln.Accept()
				if e != nil {
					return
				}
				s.hold(c)
				select {
				case s.acc <- c:
				default:
					_ = c.Close()
				}
			}
		}()
	}
	if withPump {
		s.pump = make(chan rmsg, 1024)
		go func() {
			for {
				m, e := sock.RecvMsg()
				if e != nil {
					if e == mangos.ErrClosed {
						return
					}
					time.Sleep(time.Millisecond)
					continue
				}
				r := rmsg{hdr: append([]byte{}, m.Header...), body: append([]byte{}, m.Body...)}
				m.Free()
				select {
				case s.pump <- r:
				default:
				}
			}
		}()
	}
	return s, nil
}

func (s *sut) hold(c net.Conn) {
	s.mu.Lock()
	s.held = append(s.held, c)
	s.mu.Unlock()
}

func (s *sut) close() {
	if s.hln != nil {
		_ = s.hln.Close()
	}
	s.mu.Lock()
	held := s.held
	s.held = nil
	ctls := s.ctls
	s.ctls = nil
	s.mu.Unlock()
	for _, c := range held {
		_ = c.Close()
	}
	for _, p := range ctls {
		_ = p.sock.Close()
	}
	_ = s.sock.Close()
	if s.path != "" {
		_ = os.Remove(s.path)
	}
	if s.hpath != "" {
		_ = os.Remove(s.hpath)
	}
}

// next is the next message the application received, within d.
func (s *sut) next(d time.Duration) (rmsg, bool) {
	t := time.NewTimer(d)
	defer t.Stop()
	select {
	case m := <-s.pump:
		return m, true
	case <-t.C:
		return rmsg{}, false
	}
}

// ---------------------------------------------------------------------------------
// the hostile peer's connection
// ---------------------------------------------------------------------------------

type hostile struct {
	c     net.Conn
	r     io.Reader
	done  chan struct{} // closed when the reader saw the end of the connection
	how   string
	nread int64
}

// hostileConn establishes one transport level connection in the sut's role (after the TLS
// handshake on tls+tcp and wss).
func (s *sut) hostileConn() (*hostile, error) {
	_, ccfg, _ := tlsConfigs()
	scfg, _, _ := tlsConfigs()
	if s.role == roleListen {
		d := net.Dialer{Timeout: watchdog}
		var c net.Conn
		var err error
		if tlsWrapped(s.tran) && !s.noTLSHostile {
			c, err = tls.DialWithDialer(&d, s.rawNet, s.rawAddr, ccfg)
		} else {
			c, err = d.Dial(s.rawNet, s.rawAddr)
		}
		if err != nil {
			return nil, fmt.Errorf("the mangos listener at %s does not accept a connection: %v", s.rawAddr, err)
		}
		s.hold(c)
		return &hostile{c: c, r: c, done: make(chan struct{})}, nil
	}
	if !s.dialed {
		s.dialed = true
		opts := map[string]interface{}{mangos.OptionDialAsynch: true}
		if tlsWrapped(s.tran) {
			opts[mangos.OptionTLSConfig] = ccfg
		}
		d, err := s.sock.NewDialer(s.haddr, opts)
		if err != nil {
			return nil, fmt.Errorf("NewDialer(%s): %v", s.haddr, err)
		}
		if err = d.Dial(); err != nil {
			return nil, fmt.Errorf("Dial(%s): %v", s.haddr, err)
		}
		s.dlr = d
	}
	t := time.NewTimer(watchdog)
	defer t.Stop()
	select {
	case c := <-s.acc:
		if tlsWrapped(s.tran) {
			tc := tls.Server(c, scfg)
			_ = c.SetDeadline(time.Now().Add(watchdog))
			if err := tc.Handshake(); err != nil {
				return nil, fmt.Errorf("TLS handshake with the mangos dialer: %v", err)
			}
			_ = c.SetDeadline(time.Time{})
			c = tc
		}
		return &hostile{c: c, r: c, done: make(chan struct{})}, nil
	case <-t.C:
		return nil, fmt.Errorf("the mangos dialer did not connect to %s within %v", s.haddr, watchdog)
	}
}

// optionCallsReturn: while a connection is stuck in its handshake, option calls on the endpoint that
// made it and on the socket still return.  It reports the first call that does not.
func (s *sut) optionCallsReturn() string {
	type oc struct {
		name string
		f    func()
	}
	lim := s.maxrx
	if lim >= 1<<31 {
		lim = 0
	}
	var calls []oc
	if s.role == roleDial && s.dlr != nil {
		calls = append(calls,
			oc{"Dialer.GetOption(MaxRecvSize)", func() { _, _ = s.dlr.GetOption(mangos.OptionMaxRecvSize) }},
			oc{"Dialer.SetOption(MaxRecvSize)", func() { _ = s.dlr.SetOption(mangos.OptionMaxRecvSize, lim) }},
			oc{"Dialer.GetOption(unknown)", func() { _, _ = s.dlr.GetOption("NO-SUCH-OPTION") }})
	}
	if s.lst != nil {
		calls = append(calls,
			oc{"Listener.GetOption(MaxRecvSize)", func() { _, _ = s.lst.GetOption(mangos.OptionMaxRecvSize) }},
			oc{"Listener.SetOption(MaxRecvSize)", func() { _ = s.lst.SetOption(mangos.OptionMaxRecvSize, lim) }})
	}
	calls = append(calls,
		oc{"Socket.SetOption(MaxRecvSize)", func() { _ = s.sock.SetOption(mangos.OptionMaxRecvSize, lim) }},
		oc{"Socket.GetOption(MaxRecvSize)", func() { _, _ = s.sock.GetOption(mangos.OptionMaxRecvSize) }})
	for _, c := range calls {
		done := make(chan struct{})
		go func() { c.f(); close(done) }()
		select {
		case <-done:
		case <-time.After(watchdog):
			return c.name
		}
	}
	return ""
}

// stopAccepting closes the hostile peer's listener so that a redial of mangos is refused.
func (s *sut) stopAccepting() {
	if s.hln != nil {
		_ = s.hln.Close()
	}
}

// startReader discards everything mangos sends and notes the end of the connection.
func (h *hostile) startReader() {
	go func() {
		buf := make([]byte, 32<<10)
		for {
			n, err := h.r.Read(buf)
			atomic.AddInt64(&h.nread, int64(n))
			if err != nil {
				h.how = err.Error()
				close(h.done)
				return
			}
		}
	}()
}

// waitClosed reports whether mangos ended the connection (EOF, reset, TLS alert ...) within d.
func (h *hostile) waitClosed(d time.Duration) bool {
	t := time.NewTimer(d)
	defer t.Stop()
	select {
	case <-h.done:
		return true
	case <-t.C:
		return false
	}
}

func (h *hostile) write(b []byte) error {
	_ = h.c.SetWriteDeadline(time.Now().Add(watchdog))
	_, err := h.c.Write(b)
	return err
}

func (h *hostile) halfClose() error {
	if cw, ok := h.c.(interface{ CloseWrite() error }); ok {
		return cw.CloseWrite()
	}
	return fmt.Errorf("%T cannot be half closed", h.c)
}

// spHandshake performs the hostile peer's side of a CORRECT SP handshake.
func (h *hostile) spHandshake(proto uint16) error {
	if err := h.write(spHeader(proto)); err != nil {
		return err
	}
	var got [8]byte
	_ = h.c.SetReadDeadline(time.Now().Add(watchdog))
	if _, err := io.ReadFull(h.r, got[:]); err != nil {
		return fmt.Errorf("reading the SP header of mangos: %v", err)
	}
	_ = h.c.SetReadDeadline(time.Time{})
	return nil
}

// ---------------------------------------------------------------------------------
// well behaved control peers (real mangos BUS sockets on the same transport)
// ---------------------------------------------------------------------------------

type ctl struct {
	name string
	sock mangos.Socket
}

// newControl connects a fresh BUS socket to the sut's listener; the synchronous Dial
// (connect + handshake) must finish within the watchdog.
func (s *sut) newControl(name string) (*ctl, error) {
	sock, err := bus.NewSocket()
	if err != nil {
		return nil, err
	}
	_ = sock.SetOption(mangos.OptionRecvDeadline, watchdog)
	_ = sock.SetOption(mangos.OptionSendDeadline, watchdog)
	opts := map[string]interface{}{}
	if tlsWrapped(s.tran) {
		_, ccfg, _ := tlsConfigs()
		opts[mangos.OptionTLSConfig] = ccfg
	}
	res := make(chan error, 1)
	go func() { res <- sock.DialOptions(s.maddr, opts) }()
	t := time.NewTimer(watchdog)
	defer t.Stop()
	p := &ctl{name: name, sock: sock}
	s.mu.Lock()
	s.ctls = append(s.ctls, p)
	s.mu.Unlock()
	select {
	case err = <-res:
		if err != nil {
			return nil, fmt.Errorf("Dial(%s): %v", s.maddr, err)
		}
		return p, nil
	case <-t.C:
		return nil, fmt.Errorf("Dial(%s) did not return within %v", s.maddr, watchdog)
	}
}

const ctlSize = 32 // size of the control messages (excluded from the allocation check)
const sentinelSize = 33

// ctlMsg is the next control message towards the sut: ctlSize bytes, or one byte when the
// receive limit is smaller.
func (s *sut) ctlMsg(dir string) []byte {
	s.ctlSeq++
	if dir == "p2s" && s.maxrx < ctlSize {
		return []byte{0x40 + byte(s.ctlSeq%32)}
	}
	b := []byte(fmt.Sprintf("c16-ctl-%s-%08d-", dir, s.ctlSeq))
	for len(b) < ctlSize {
		b = append(b, '.')
	}
	return b[:ctlSize]
}

// hostileSentinel is a well formed message the hostile connection sends after its test
// input (it shows that the connection is still served).
func (s *sut) hostileSentinel() []byte {
	s.ctlSeq++
	if s.maxrx < sentinelSize {
		return []byte{0xE0 + byte(s.ctlSeq%16)}
	}
	b := []byte(fmt.Sprintf("c16-hostile-sentinel-%08d-", s.ctlSeq))
	for len(b) < sentinelSize {
		b = append(b, '.')
	}
	return b[:sentinelSize]
}

// exchange sends one message from the control peer to the sut and one back.  The message
// of the control peer must be the NEXT thing the application sees: anything else is a
// delivery the hostile peer provoked.  what names the hostile input for the signature.
func (s *sut) exchange(c *cctx, scen, what string, p *ctl) bool {
	a := s.ctlMsg("p2s")
	if err := p.sock.Send(a); err != nil {
		c.fail("C16/"+scen+"/control-send-failed/"+what+"/"+s.where(), "fail", "control peer %s: Send: %v", p.name, err)
		return false
	}
	c.ops(1)
	m, ok := s.next(watchdog)
	if !ok {
		c.fail("C16/"+scen+"/control-not-served/"+what+"/"+s.where(), "hang",
			"a message of the well behaved peer %s was not delivered to the application within %v", p.name, watchdog)
		return false
	}
	if !bytes.Equal(m.body, a) {
		c.fail("C16/"+scen+"/delivered/"+what+"/"+s.where(), "fail",
			"the application received %s (%d bytes) which no well formed in-limit message dictates; the next delivery had to be the control message %q", hexHead(m.body), len(m.body), a)
		return false
	}
	b := s.ctlMsg("s2p")
	if err := s.sock.Send(b); err != nil {
		c.fail("C16/"+scen+"/socket-send-failed/"+what+"/"+s.where(), "fail", "Send on the socket under test: %v", err)
		return false
	}
	c.ops(1)
	for {
		got, err := p.sock.Recv()
		if err != nil {
			c.fail("C16/"+scen+"/control-not-answered/"+what+"/"+s.where(), "hang",
				"the well behaved peer %s did not receive the socket's message within %v: %v", p.name, watchdog, err)
			return false
		}
		if bytes.Equal(got, b) {
			return true
		}
		if !bytes.HasPrefix(got, []byte("c16-ctl-s2p-")) {
			c.fail("C16/"+scen+"/control-got-garbage/"+what+"/"+s.where(), "fail", "the well behaved peer %s received %s", p.name, hexHead(got))
			return false
		}
	}
}

// expectDelivery: the next thing the application sees must be want.
func (s *sut) expectDelivery(c *cctx, scen, what string, want []byte) bool {
	m, ok := s.next(watchdog)
	if !ok {
		c.fail("C16/"+scen+"/not-delivered/"+what+"/"+s.where(), "fail",
			"a well formed message of %d bytes (limit %s) was not delivered within %v", len(want), s.limitText(), watchdog)
		return false
	}
	c.ops(1)
	if !bytes.Equal(m.body, want) {
		c.fail("C16/"+scen+"/delivered-wrong-bytes/"+what+"/"+s.where(), "fail",
			"the application received %s (%d bytes), the well formed message was %s (%d bytes)", hexHead(m.body), len(m.body), hexHead(want), len(want))
		return false
	}
	return true
}

// waitDropped waits until mangos ended the hostile connection.  Nothing else is going on at
// that moment (no control traffic), so a delivery that shows up first was provoked by the
// hostile input: it is returned.
func (s *sut) waitDropped(h *hostile) (closed bool, delivered *rmsg) {
	t := time.NewTimer(watchdog)
	defer t.Stop()
	select {
	case <-h.done:
		return true, nil
	case m := <-s.pump:
		return false, &m
	case <-t.C:
		return false, nil
	}
}
