package c16

import (
	"fmt"
	"time"

	"go.nanomsg.org/mangos/v3/protocol/bus"
)

// Scenario message: the hostile peer completes a correct SP handshake with a mangos BUS
// socket (BUS has no protocol header: the application sees exactly the transport payload)
// and then sends one frame image.
//
// Cases (complete enumeration) per transport tcp, tls+tcp, ipc x role listen, dial:
//   - MaxRecvSize in {default 1 MiB, 1024, 1} (thorough adds 2, 255, 256, 65535, 65536) x length field in
//     {-1, -2^63, 0, 1, limit-1, limit, limit+1, 2^31, 2^32, 2^63-1} x body
//     {none, short, exact (only where the length is <= 70000)};
//   - MaxRecvSize 0 (limit switched off) x length field in {-1, -2^63, 0, 1, 70000} x body
//     {none, short, exact}: only lengths that cannot cause a huge legitimate allocation (with
//     the limit off a 2^63-1 length reaches make by configuration); a negative length is
//     still dropped at once, everything else is in limit;
//   - a valid 20 byte message (28/29 bytes on the wire) cut after every byte, then close;
//   - ipc: leading type byte 0x00, 0x02, 0xff instead of 0x01 on an otherwise valid frame.
//
// Reference parser (refParse) and oracle:
//   - "deliver": length within the limit and the whole body sent: the application receives
//     exactly these bytes, and a second well formed message from the same connection;
//   - "incomplete": length within the limit, body (or prefix) not complete: nothing is
//     delivered, a well behaved peer is served meanwhile; when the rest of the body arrives
//     the message is delivered; when the connection is closed instead, the pipe detaches
//     and nothing is delivered;
//   - "drop": negative length or length > limit: mangos drops the connection AT ONCE: the
//     hostile peer neither sends the announced body nor closes, and sees EOF/reset within
//     the watchdog; no message buffer of the announced size (or more) was requested from
//     NewMessage; nothing is delivered; the pipe detaches; a well behaved peer is served;
//   - "bad-type" (ipc): the frame is not a well formed message: its body must not be
//     delivered (whether the connection is dropped or the frame skipped is left open).
var scMessage = &scenario{name: "message_frames", cases: messageCases, chunk: 6}

type msgCase struct {
	tran, role string
	maxrx      int // 0 = default (1 MiB), noLimit = MaxRecvSize 0
	typ        byte
	lenField   uint64
	nbody      int  // bytes of body sent with the frame
	cut        int  // >= 0: send only the first cut bytes of the wire image
	thenClose  bool // close after sending
}

func (m msgCase) limit() string {
	switch m.maxrx {
	case 0:
		return "1048576(default)"
	case noLimit:
		return "0(no limit)"
	}
	return fmt.Sprint(m.maxrx)
}

// wire is the byte image the hostile peer sends, body is the complete body a well formed
// frame with this length field would carry (nil if the length is absurd).
func (m msgCase) wire() (wire []byte, full []byte) {
	ipc := m.tran == "ipc"
	sz := int64(m.lenField)
	if sz >= 0 && sz <= 1<<20 {
		full = fill(int(sz), uint32(sz)+7)
	} else {
		full = fill(64, 99) // only a prefix of it is ever sent
	}
	n := m.nbody
	if n > len(full) {
		n = len(full)
	}
	wire = append(spPrefix(ipc, m.typ, m.lenField), full[:n]...)
	if m.cut >= 0 && m.cut < len(wire) {
		wire = wire[:m.cut]
	}
	if sz < 0 || sz > 1<<20 {
		full = nil
	}
	return wire, full
}

// refParse is the reference parser of the SP stream mapping with a receive limit.
func refParse(ipc bool, limit int, wire []byte) (verdict string, announced int64) {
	need := 8
	if ipc {
		need = 9
	}
	if len(wire) < need {
		return "incomplete", 0
	}
	p := wire
	badType := false
	if ipc {
		badType = p[0] != 0x01
		p = p[1:]
	}
	var v uint64
	for _, b := range p[:8] {
		v = v<<8 | uint64(b)
	}
	sz := int64(v)
	if badType {
		return "bad-type", sz
	}
	if sz < 0 || sz > int64(limit) {
		return "drop", sz
	}
	if int64(len(p[8:])) >= sz {
		return "deliver", sz
	}
	return "incomplete", sz
}

func messageCases(tier string) []tcase {
	var out []tcase
	add := func(m msgCase, desc string) {
		label := fmt.Sprintf("message tran=%s role=%s socket=bus maxrecv=%s %s", m.tran, m.role, m.limit(), desc)
		out = append(out, tcase{label: label, run: func(c *cctx) { runMessage(c, m) }})
	}
	limits := []int{0, 1024, 1}
	if tier == "thorough" {
		limits = []int{0, 1024, 1, 2, 255, 256, 65535, 65536}
	}
	for _, tran := range hsTransports {
		for _, role := range roles {
			for _, maxrx := range limits {
				lim := maxrx
				if lim == 0 {
					lim = 1 << 20
				}
				lens := []uint64{^uint64(0), 1 << 63, 0, 1, uint64(lim - 1), uint64(lim), uint64(lim + 1), 1 << 31, 1 << 32, 1<<63 - 1}
				seen := map[uint64]bool{}
				for _, lf := range lens {
					if seen[lf] {
						continue // limit 1: limit-1 = 0 and limit = 1 are listed already
					}
					seen[lf] = true
					sz := int64(lf)
					for _, mode := range []string{"none", "short", "exact"} {
						n := 0
						switch mode {
						case "short":
							n = 7
							if sz >= 0 && sz <= 7 {
								n = int(sz) - 1
								if n < 0 {
									n = 0
								}
							}
						case "exact":
							if sz < 0 || sz > 70000 {
								continue
							}
							n = int(sz)
						}
						add(msgCase{tran: tran, role: role, maxrx: maxrx, typ: 1, lenField: lf, nbody: n, cut: -1},
							fmt.Sprintf("length-field=%#016x(%d) body=%s(%d bytes sent) then=wait", lf, sz, mode, n))
					}
				}
			}
			// MaxRecvSize 0 (no limit): only lengths that cannot cause a huge legitimate
			// allocation; a negative length must be rejected all the same
			for _, lf := range []uint64{^uint64(0), 1 << 63, 0, 1, 70000} {
				sz := int64(lf)
				for _, mode := range []string{"none", "short", "exact"} {
					n := 0
					switch mode {
					case "short":
						n = 7
						if sz >= 0 && sz <= 7 {
							n = int(sz) - 1
							if n < 0 {
								n = 0
							}
						}
					case "exact":
						if sz < 0 {
							continue
						}
						n = int(sz)
					}
					add(msgCase{tran: tran, role: role, maxrx: noLimit, typ: 1, lenField: lf, nbody: n, cut: -1},
						fmt.Sprintf("length-field=%#016x(%d) body=%s(%d bytes sent) then=wait", lf, sz, mode, n))
				}
			}
			// truncation of a valid frame at every byte position, then close
			full := 28
			if tran == "ipc" {
				full = 29
			}
			for cut := 0; cut <= full; cut++ {
				add(msgCase{tran: tran, role: role, maxrx: 0, typ: 1, lenField: 20, nbody: 20, cut: cut, thenClose: true},
					fmt.Sprintf("valid-frame(20 byte body, %d on the wire) cut-after=%d then=close", full, cut))
			}
			if tran == "ipc" {
				for _, typ := range []byte{0x00, 0x02, 0xff} {
					add(msgCase{tran: tran, role: role, maxrx: 0, typ: typ, lenField: 20, nbody: 20, cut: -1},
						fmt.Sprintf("ipc-type-byte=%#02x length-field=20 body=exact(20 bytes sent) then=wait", typ))
				}
			}
		}
	}
	return out
}

func runMessage(c *cctx, m msgCase) {
	const scen = "message"
	s, err := newSUT(bus.NewSocket, m.tran, m.role, m.maxrx, true)
	if err != nil {
		c.setupErr("%v", err)
		return
	}
	defer s.close()
	wire, full := m.wire()
	verdict, announced := refParse(s.ipc(), s.maxrx, wire)
	what := verdict
	if verdict == "drop" {
		if announced < 0 {
			what = "negative-length"
		} else {
			what = "over-limit"
		}
	}

	p1, err := s.newControl("P1")
	if err != nil {
		c.setupErr("control peer: %v", err)
		return
	}
	if !s.exchange(c, scen, "before", p1) {
		// no hostile connection yet: a well formed in-limit message of a well behaved peer
		// was not served (reported like every other failure after 3/3 replays)
		return
	}
	h, err := s.hostileConn()
	if err != nil {
		c.setupErr("hostile connection: %v", err)
		return
	}
	s.stopAccepting()
	if err = h.spHandshake(protoBus); err != nil {
		c.setupErr("hostile SP handshake: %v", err)
		return
	}
	if !s.ev.waitAttached(2) {
		c.setupErr("no pipe for the hostile connection after a correct handshake")
		return
	}
	h.startReader()

	led.reset()
	werr := h.write(wire)
	c.ops(1)

	switch verdict {
	case "deliver":
		if werr != nil {
			c.setupErr("hostile write: %v", werr)
			return
		}
		if !s.expectDelivery(c, scen, "in-limit", full[:announced]) {
			return
		}
		if !led.saw(int(announced)) {
			// self test of the harness: the allocation check of the drop cases would be vacuous
			c.setupErr("harness: the ledger hook did not see NewMessage(%d) of a delivered message", announced)
			return
		}
		snt := s.hostileSentinel()
		if err = h.write(spFrame(s.ipc(), snt)); err != nil {
			c.fail("C16/"+scen+"/connection-lost-after-valid-message/"+s.where(), "fail", "writing a second well formed message: %v", err)
			return
		}
		if !s.expectDelivery(c, scen, "second-message", snt) {
			return
		}
		if !s.exchange(c, scen, what, p1) {
			return
		}
		if m.thenClose {
			_ = h.c.Close()
			if !s.ev.waitDetached(1) {
				c.fail("C16/"+scen+"/pipe-not-detached/"+what+"/"+s.where(), "hang", "the hostile peer closed; its pipe did not detach within %v", watchdog)
				return
			}
		}

	case "incomplete":
		if werr != nil {
			c.setupErr("hostile write: %v", werr)
			return
		}
		// a well behaved peer is served while the frame is pending, and sees nothing of it
		if !s.exchange(c, scen, what, p1) {
			return
		}
		if m.thenClose {
			_ = h.c.Close()
			if !s.ev.waitDetached(1) {
				c.fail("C16/"+scen+"/pipe-not-detached/"+what+"/"+s.where(), "hang", "the hostile peer closed in the middle of a frame; its pipe did not detach within %v", watchdog)
				return
			}
			if !s.exchange(c, scen, what, p1) {
				return
			}
			break
		}
		if n := s.ev.nDetached(); n != 0 {
			c.fail("C16/"+scen+"/in-limit-message-dropped/"+s.where(), "fail",
				"a frame announcing %d bytes (limit %s) whose body had not arrived yet made mangos drop the connection", announced, m.limit())
			return
		}
		// the rest arrives: the message is within the limit and must be delivered
		prefix := len(wire) - m.nbody
		sent := len(wire) - prefix
		if err = h.write(full[sent:]); err != nil {
			c.fail("C16/"+scen+"/in-limit-message-dropped/"+s.where(), "fail", "writing the rest of an in-limit body (%d of %d bytes were sent): %v", sent, announced, err)
			return
		}
		if !s.expectDelivery(c, scen, "in-limit-split", full) {
			return
		}
		if !s.exchange(c, scen, what, p1) {
			return
		}

	case "drop":
		// werr is ignored: mangos may reset the connection while we still write
		closed, dlv := s.waitDropped(h)
		if dlv != nil {
			c.fail("C16/"+scen+"/delivered/"+what+"/"+s.where(), "fail",
				"length field %#016x (%d) with a limit of %s: instead of dropping the connection mangos delivered %s (%d bytes) to the application",
				m.lenField, announced, m.limit(), hexHead(dlv.body), len(dlv.body))
			return
		}
		if !closed {
			c.fail("C16/"+scen+"/not-dropped-at-once/"+what+"/"+s.where(), "hang",
				"length field %#016x (%d) with a limit of %s: mangos did not drop the connection within %v although %d body bytes were sent and none will follow (it waits for the announced amount)",
				m.lenField, announced, m.limit(), watchdog, m.nbody)
			return
		}
		if announced > 0 {
			if mx := led.maxExcluding(ctlSize, sentinelSize); int64(mx) >= announced {
				c.fail("C16/"+scen+"/announced-size-allocated/"+what+"/"+s.where(), "fail",
					"length field %d with a limit of %s: NewMessage(%d) was called (the announced amount was allocated before the limit test)", announced, m.limit(), mx)
				return
			}
		}
		if !s.ev.waitDetached(1) {
			c.fail("C16/"+scen+"/pipe-not-detached/"+what+"/"+s.where(), "hang", "the dropped connection's pipe did not detach within %v", watchdog)
			return
		}
		if !s.exchange(c, scen, what, p1) {
			return
		}

	case "bad-type":
		// followed by a well formed message: either the connection is gone or that one arrives
		snt := s.hostileSentinel()
		_ = h.write(spFrame(true, snt))
		for {
			var got rmsg
			var ok bool
			select {
			case got, ok = <-s.pump:
			case <-h.done:
			case <-time.After(watchdog):
			}
			if !ok {
				break
			}
			if string(got.body) == string(snt) {
				c.count("bad-type-skipped")
				break
			}
			c.fail("C16/"+scen+"/delivered/"+what+"/"+s.where(), "fail",
				"an IPC frame with type byte %#02x (only 0x01 is a message) was delivered to the application: %s", m.typ, hexHead(got.body))
			return
		}
		if !s.exchange(c, scen, what, p1) {
			return
		}
	}
	c.nontrivial(fmt.Sprintf("%s/%s/%d/%s/%x/%d/%d", m.tran, m.role, s.maxrx, what, m.lenField, m.nbody, m.cut))
	c.count(what)
}
