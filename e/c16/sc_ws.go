package c16

import (
	"bufio"
	"bytes"
	"fmt"
	"net/http"
	"time"

	"go.nanomsg.org/mangos/v3/protocol/bus"
)

// Scenario websocket: ws and wss, the mangos BUS socket (MaxRecvSize 1024) listening (the
// hostile peer is a hand written RFC 6455 client) or dialing (hand written server).
//
// Frame level cases (after a correct upgrade with the subprotocol bus.sp.nanomsg.org); M is
// the masking RFC 6455 5.1 demands for the hostile peer's side (client: masked):
//
//	text              one text frame "hello"                       -> reject
//	fragmented        binary FIN=0 (10 bytes) + continuation (10)  -> deliver the 20 bytes (RFC 6455 5.4: one message)
//	fragmented-over   binary FIN=0 (600) + continuation (600)      -> drop (message of 1200 > 1024)
//	binary-1023/1024  one binary frame at the limit                 -> deliver
//	binary-1025       one binary frame of 1025 bytes                -> drop
//	binary-1025-nobody  header announcing 1025, no payload          -> drop (at once: the payload never comes)
//	len64-max         64 bit length 2^63-1, no payload              -> drop
//	len64-msb         64 bit length 2^63 (invalid, 5.2), no payload -> drop
//	wrong-mask        a binary frame with the opposite masking      -> reject (5.1: must not be accepted)
//	close             a close frame (1000)                          -> mangos closes, pipe detaches
//	garbage-ff        32 x 0xff                                     -> reject
//	garbage-http      "GET / HTTP/1.1\r\n\r\n" in place of a frame  -> reject
//	ping-flood        100 pings, then a binary message              -> deliver the message
//
// deliver: the application sees exactly the payload, then a second well formed message of
// the same connection.  drop: mangos ends the connection within the watchdog without the
// hostile peer sending anything more, the pipe detaches, nothing is delivered.  reject: the
// property only says that nothing may be delivered for input that is not a well formed
// binary message: the frame is followed by a well formed message; either mangos has ended
// the connection or that second message (and only it) is delivered.  In all cases a well
// behaved peer exchanges messages with the socket afterwards, and the process survives.
//
// Upgrade level cases: role listen: wrong subprotocol, no subprotocol, missing
// Sec-WebSocket-Key, bytes that are not HTTP, half a request followed by silence; role
// dial: 101 with a subprotocol that was not offered (RFC 6455 4.1: the client must fail the
// connection), 101 with no subprotocol selected at all (the server is not an SP endpoint), wrong / missing Sec-WebSocket-Accept, bytes that are not HTTP, status 200,
// silence.  Oracle: no pipe attaches, and while the hostile connection is pending a new well
// behaved peer connects and exchanges messages.
var scWS = &scenario{name: "websocket", cases: wsCases, chunk: 2}

var wsTransports = []string{"ws", "wss"}

var wsFrameCases = []string{"text", "fragmented", "fragmented-over", "binary-1023", "binary-1024", "binary-1025", "binary-1025-nobody",
	"len64-max", "len64-msb", "wrong-mask", "close", "garbage-ff", "garbage-http", "ping-flood"}

var wsUpgradeCases = map[string][]string{
	roleListen: {"wrong-subprotocol", "no-subprotocol", "missing-key", "not-http", "partial-then-silence"},
	roleDial:   {"wrong-subprotocol", "no-subprotocol-selected", "wrong-accept", "missing-accept", "not-http", "status-200", "silence"},
}

const wsLimit = 1024

func wsCases(tier string) []tcase {
	var out []tcase
	for _, tran := range wsTransports {
		for _, role := range roles {
			tran, role := tran, role
			for _, name := range wsFrameCases {
				name := name
				out = append(out, tcase{label: fmt.Sprintf("websocket tran=%s role=%s socket=bus maxrecv=%d frames=%s", tran, role, wsLimit, name),
					run: func(c *cctx) { runWSFrame(c, tran, role, name) }})
			}
			for _, name := range wsUpgradeCases[role] {
				name := name
				out = append(out, tcase{label: fmt.Sprintf("websocket tran=%s role=%s socket=bus upgrade=%s", tran, role, name),
					run: func(c *cctx) { runWSUpgrade(c, tran, role, name) }})
			}
		}
	}
	return out
}

var wsSeq uint32

var maskKey = [4]byte{0x37, 0xfa, 0x21, 0x3d}

// wsEstablish performs the hostile peer's side of a correct opening handshake.
func (s *sut) wsEstablish(h *hostile) error {
	sub := "bus" + spSuffix
	_ = h.c.SetDeadline(time.Now().Add(watchdog))
	defer func() { _ = h.c.SetDeadline(time.Time{}) }()
	if s.role == roleListen {
		wsSeq++
		br, _, err := wsClientHandshake(h.c, s.rawAddr, wsPath, sub, wsSeq)
		if err != nil {
			return fmt.Errorf("the mangos listener did not answer a correct upgrade request with 101: %v", err)
		}
		h.r = br
		return nil
	}
	br, key, offered, err := wsReadUpgrade(h.c)
	if err != nil {
		return err
	}
	if len(offered) != 1 || offered[0] != sub {
		return fmt.Errorf("the mangos dialer offered the subprotocols %q", offered)
	}
	if _, err = h.c.Write([]byte(wsAnswer101(wsAcceptKey(key), sub))); err != nil {
		return err
	}
	h.r = br
	return nil
}

func runWSFrame(c *cctx, tran, role, name string) {
	const scen = "websocket"
	s, err := newSUT(bus.NewSocket, tran, role, wsLimit, true)
	if err != nil {
		c.setupErr("%v", err)
		return
	}
	defer s.close()
	p1, err := s.newControl("P1")
	if err != nil {
		c.setupErr("control peer: %v", err)
		return
	}
	if !s.exchange(c, scen, "before", p1) {
		// no hostile connection yet: a well formed in-limit message of a well behaved peer
		// was not served (reported like every other failure after 3/3 replays)
		return
	}
	h, err := s.hostileConn()
	if err != nil {
		c.setupErr("hostile connection: %v", err)
		return
	}
	s.stopAccepting()
	if err = s.wsEstablish(h); err != nil {
		c.setupErr("hostile upgrade: %v", err)
		return
	}
	if !s.ev.waitAttached(2) {
		c.setupErr("no pipe for the hostile connection after a correct upgrade")
		return
	}
	h.startReader()

	m := role == roleListen // the masking RFC 6455 demands for our side
	frame := func(b0 byte, payload []byte) []byte {
		return wsFrame(b0, m, uint64(len(payload)), false, payload, maskKey)
	}
	var wire, payload []byte
	expect := ""
	switch name {
	case "text":
		wire, expect = frame(wsFin|wsText, []byte("hello")), "reject"
	case "fragmented":
		payload = fill(20, 1)
		wire = append(frame(wsBinary, payload[:10]), frame(wsFin|wsCont, payload[10:])...)
		expect = "deliver"
	case "fragmented-over":
		payload = fill(1200, 2)
		wire = append(frame(wsBinary, payload[:600]), frame(wsFin|wsCont, payload[600:])...)
		expect = "drop"
	case "binary-1023", "binary-1024":
		payload = fill(map[string]int{"binary-1023": 1023, "binary-1024": 1024}[name], 3)
		wire, expect = frame(wsFin|wsBinary, payload), "deliver"
	case "binary-1025":
		wire, expect = frame(wsFin|wsBinary, fill(1025, 4)), "drop"
	case "binary-1025-nobody":
		wire, expect = wsFrame(wsFin|wsBinary, m, 1025, false, nil, maskKey), "drop"
	case "len64-max":
		wire, expect = wsFrame(wsFin|wsBinary, m, 1<<63-1, true, nil, maskKey), "drop"
	case "len64-msb":
		wire, expect = wsFrame(wsFin|wsBinary, m, 1<<63, true, nil, maskKey), "drop"
	case "wrong-mask":
		p := fill(16, 5)
		wire, expect = wsFrame(wsFin|wsBinary, !m, uint64(len(p)), false, p, maskKey), "reject"
	case "close":
		wire, expect = frame(wsFin|wsClose, []byte{0x03, 0xe8}), "close"
	case "garbage-ff":
		wire, expect = bytes.Repeat([]byte{0xff}, 32), "reject"
	case "garbage-http":
		wire, expect = []byte("GET / HTTP/1.1\r\n\r\n"), "reject"
	case "ping-flood":
		for i := 0; i < 100; i++ {
			wire = append(wire, frame(wsFin|wsPing, []byte{'p', 'i', byte(i), 'g'})...)
		}
		payload = fill(40, 6)
		wire = append(wire, frame(wsFin|wsBinary, payload)...)
		expect = "deliver"
	default:
		c.setupErr("unknown case %s", name)
		return
	}

	werr := h.write(wire)
	c.ops(1)
	switch expect {
	case "deliver":
		if werr != nil {
			c.setupErr("hostile write: %v", werr)
			return
		}
		if !s.expectDelivery(c, scen, name, payload) {
			return
		}
		snt := s.hostileSentinel()
		if err = h.write(frame(wsFin|wsBinary, snt)); err != nil {
			c.fail("C16/"+scen+"/connection-lost-after-valid-message/"+name+"/"+s.where(), "fail", "writing a second well formed message: %v", err)
			return
		}
		if !s.expectDelivery(c, scen, name+"/second-message", snt) {
			return
		}
	case "drop", "close":
		closed, dlv := s.waitDropped(h)
		if dlv != nil {
			c.fail("C16/"+scen+"/delivered/"+name+"/"+s.where(), "fail",
				"instead of ending the connection mangos delivered %s (%d bytes) to the application (limit %d)", hexHead(dlv.body), len(dlv.body), wsLimit)
			return
		}
		if !closed {
			sig, txt := "not-dropped-at-once", "an over-limit (or absurd) message length did not make mangos drop the connection"
			if expect == "close" {
				sig, txt = "close-frame-ignored", "a close frame did not make mangos end the connection"
			}
			c.fail("C16/"+scen+"/"+sig+"/"+name+"/"+s.where(), "hang", "%s within %v (limit %d, nothing more was sent)", txt, watchdog, wsLimit)
			return
		}
		if !s.ev.waitDetached(1) {
			c.fail("C16/"+scen+"/pipe-not-detached/"+name+"/"+s.where(), "hang", "the ended connection's pipe did not detach within %v", watchdog)
			return
		}
	case "reject":
		snt := s.hostileSentinel()
		_ = h.write(frame(wsFin|wsBinary, snt))
		t := time.NewTimer(watchdog)
		select {
		case got := <-s.pump:
			if !bytes.Equal(got.body, snt) {
				t.Stop()
				c.fail("C16/"+scen+"/delivered/"+name+"/"+s.where(), "fail",
					"input that is not a well formed binary message was delivered to the application as %s (%d bytes)", hexHead(got.body), len(got.body))
				return
			}
			c.count("rejected-input-skipped-connection-kept")
		case <-h.done:
			c.count("rejected-input-connection-ended")
		case <-t.C:
			c.count("rejected-input-undecided")
		}
		t.Stop()
	}
	if !s.exchange(c, scen, name, p1) {
		return
	}
	c.nontrivial(tran + "/" + role + "/" + name)
	c.count(expect)
}

func runWSUpgrade(c *cctx, tran, role, name string) {
	const scen = "websocket-upgrade"
	s, err := newSUT(bus.NewSocket, tran, role, wsLimit, true)
	if err != nil {
		c.setupErr("%v", err)
		return
	}
	defer s.close()
	p1, err := s.newControl("P1(connected before)")
	if err != nil {
		c.setupErr("control peer: %v", err)
		return
	}
	if !s.exchange(c, scen, "before", p1) {
		// no hostile connection yet: a well formed in-limit message of a well behaved peer
		// was not served (reported like every other failure after 3/3 replays)
		return
	}
	h, err := s.hostileConn()
	if err != nil {
		c.setupErr("hostile connection: %v", err)
		return
	}
	good := "bus" + spSuffix
	silent := false
	var resp chan int // role listen: HTTP status of the answer (0: none)
	if role == roleListen {
		wsSeq++
		var req string
		switch name {
		case "wrong-subprotocol":
			req = wsUpgradeRequest(s.rawAddr, wsPath, "pub"+spSuffix, wsKey(wsSeq))
		case "no-subprotocol":
			req = wsUpgradeRequest(s.rawAddr, wsPath, "", wsKey(wsSeq))
		case "missing-key":
			req = wsUpgradeRequest(s.rawAddr, wsPath, good, "")
		case "not-http":
			req = "\x00SP\x00\x00\x70\x00\x00 this is not HTTP\r\n\r\n"
		case "partial-then-silence":
			req = "GET " + wsPath + " HTTP/1.1\r\nHost: " + s.rawAddr + "\r\nUpgrade: webso"
			silent = true
		}
		if err = h.write([]byte(req)); err != nil {
			c.setupErr("hostile write: %v", err)
			return
		}
		if silent {
			h.startReader()
		} else {
			resp = make(chan int, 1)
			go func() {
				br := bufio.NewReader(h.c)
				r, e := http.ReadResponse(br, nil)
				if e != nil {
					resp <- 0
					return
				}
				resp <- r.StatusCode
			}()
		}
	} else {
		_ = h.c.SetDeadline(time.Now().Add(watchdog))
		br, key, _, err := wsReadUpgrade(h.c)
		_ = h.c.SetDeadline(time.Time{})
		if err != nil {
			c.setupErr("reading the upgrade request of the mangos dialer: %v", err)
			return
		}
		h.r = br
		var ans string
		switch name {
		case "wrong-subprotocol":
			ans = wsAnswer101(wsAcceptKey(key), "pub"+spSuffix)
		case "no-subprotocol-selected":
			// a WebSocket server that upgrades without selecting the SP subprotocol is not an SP peer
			ans = wsAnswer101(wsAcceptKey(key), "")
		case "wrong-accept":
			ans = wsAnswer101(wsAcceptKey(wsKey(4711)), good)
		case "missing-accept":
			ans = wsAnswer101("", good)
		case "not-http":
			ans = "\x00SP\x00\x00\x70\x00\x00 this is not HTTP\r\n\r\n"
		case "status-200":
			ans = "HTTP/1.1 200 OK\r\nContent-Length: 0\r\n\r\n"
		case "silence":
			silent = true
		}
		if ans != "" {
			if err = h.write([]byte(ans)); err != nil {
				c.setupErr("hostile write: %v", err)
				return
			}
		}
		h.startReader()
	}
	c.ops(1)

	p2, err := s.newControl("P2(connecting while the hostile connection is pending)")
	if err != nil {
		c.fail("C16/"+scen+"/new-peer-delayed/"+name+"/"+s.where(), "hang",
			"while a hostile connection was in state %q a new well behaved peer could not connect: %v", name, err)
		return
	}
	if !s.exchange(c, scen, name, p2) || !s.exchange(c, scen, name, p1) {
		return
	}
	if !silent {
		// wait until the matter is decided: refused / connection ended, or a pipe attached
		if resp != nil {
			select {
			case st := <-resp:
				if st == 101 {
					s.ev.waitAttached(3)
				} else {
					c.count(fmt.Sprintf("refused-with-status-%d", st))
				}
			case <-time.After(watchdog):
				c.count("undecided")
			}
		} else {
			t := time.NewTimer(watchdog)
		wait:
			for {
				if s.ev.nAttached() >= 3 {
					break
				}
				select {
				case <-h.done:
					c.count("connection-ended-by-mangos")
					break wait
				case <-s.ev.ch:
				case <-time.After(20 * time.Millisecond):
				case <-t.C:
					c.count("undecided")
					break wait
				}
			}
			t.Stop()
		}
	}
	if n := s.ev.nAttached(); n != 2 {
		c.fail("C16/"+scen+"/pipe-attached/"+name+"/"+s.where(), "fail",
			"%d pipes attached, expected 2 (the two control peers): the hostile connection's broken opening handshake (%s) was accepted", n, name)
		return
	}
	if !s.exchange(c, scen, name, p1) {
		return
	}
	c.nontrivial(tran + "/" + role + "/upgrade/" + name)
	c.count("upgrade-refused")
}
