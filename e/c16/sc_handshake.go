package c16

import (
	"bytes"
	"fmt"

	"go.nanomsg.org/mangos/v3/protocol/bus"
)

// Scenario handshake: the hostile peer's bytes at SP handshake level on tcp, tls+tcp (after
// the TLS handshake) and ipc, with the mangos BUS socket listening or dialing.
//
// Cases (complete enumeration):
//   - every truncation of the 8 byte header to 0..7 bytes, followed by close / half-close /
//     silence for the rest of the case;
//   - a valid header followed (in the same write) by garbage;
//   - single byte deviations at positions 0,3,4,5,7 (thorough: 0..7) with the values
//     00, 01, ff (a smoke subset; some of them are the valid header itself).
//
// Oracle:
//   - a pipe attaches if and only if the first 8 bytes are exactly the BUS header;
//   - while the hostile connection is in its final state (in particular: silent), a NEW
//     well behaved peer connects, handshakes and exchanges a message in both directions,
//     and so does the peer that was connected before (each step guarded by the 10 s
//     watchdog only);
//   - mangos ends the hostile connection when the handshake cannot succeed any more: after
//     a complete but wrong header, and after the hostile peer half-closed (the hostile peer
//     sees EOF/reset within the watchdog);
//   - garbage after a valid header is a message with an absurd length: the connection is
//     dropped, nothing reaches the application.
var scHandshake = &scenario{name: "handshake_bytes", cases: handshakeCases, chunk: 4}

var hsTransports = []string{"tcp", "tls+tcp", "ipc"}

func handshakeCases(tier string) []tcase {
	var out []tcase
	valid := spHeader(protoBus)
	add := func(tran, role string, send []byte, then string, garbage bool) {
		label := fmt.Sprintf("handshake tran=%s role=%s socket=bus send=%x then=%s", tran, role, send, then)
		out = append(out, tcase{label: label, run: func(c *cctx) { runHandshake(c, tran, role, send, then, garbage) }})
	}
	positions := []int{0, 3, 4, 5, 7}
	if tier == "thorough" {
		positions = []int{0, 1, 2, 3, 4, 5, 6, 7}
	}
	for _, tran := range hsTransports {
		for _, role := range roles {
			for k := 0; k < 8; k++ {
				for _, then := range []string{"close", "half-close", "silence"} {
					add(tran, role, valid[:k], then, false)
				}
			}
			if tran == "tls+tcp" && role == roleListen {
				// the hostile peer connects at TCP level and never even starts the TLS handshake
				add(tran, role, nil, "silence-before-tls", false)
			}
			add(tran, role, append(append([]byte{}, valid...), []byte("GARBAGE! this is not an SP message\r\n")...), "silence", true)
			add(tran, role, append(append([]byte{}, valid...), bytes.Repeat([]byte{0xff}, 24)...), "silence", true)
			for _, pos := range positions {
				for _, v := range []byte{0x00, 0x01, 0xff} {
					h := append([]byte{}, valid...)
					h[pos] = v
					add(tran, role, h, "silence", false)
				}
			}
		}
	}
	return out
}

func runHandshake(c *cctx, tran, role string, send []byte, then string, garbage bool) {
	const scen = "handshake"
	s, err := newSUT(bus.NewSocket, tran, role, 0, true)
	if err != nil {
		c.setupErr("%v", err)
		return
	}
	defer s.close()
	s.noTLSHostile = then == "silence-before-tls"
	what := "truncated"
	valid := len(send) >= 8 && bytes.Equal(send[:8], spHeader(protoBus))
	switch {
	case garbage:
		what = "garbage-after-header"
	case valid:
		what = "valid"
	case len(send) >= 8:
		what = "wrong-header"
	}

	p1, err := s.newControl("P1(connected before)")
	if err != nil {
		c.setupErr("first control peer: %v", err)
		return
	}
	if !s.exchange(c, scen, "before", p1) {
		// no hostile connection yet: a well formed in-limit message of a well behaved peer
		// was not served (reported like every other failure after 3/3 replays)
		return
	}

	h, err := s.hostileConn()
	if err != nil {
		c.setupErr("hostile connection: %v", err)
		return
	}
	if len(send) > 0 {
		if err = h.write(send); err != nil {
			c.setupErr("hostile write: %v", err)
			return
		}
	}
	c.ops(1)
	h.startReader()
	switch then {
	case "close":
		_ = h.c.Close()
	case "half-close":
		if err = h.halfClose(); err != nil {
			c.setupErr("half-close: %v", err)
			return
		}
	}

	// ... nor does it block option calls on the endpoint that made the connection or on the socket
	if name := s.optionCallsReturn(); name != "" {
		c.fail("C16/"+scen+"/option-call-blocked/"+what+"/"+s.where(), "hang",
			"while a connection that had sent [%x] (%d bytes) and then %s was in its handshake, %s did not return within %v", send, len(send), then, name, watchdog)
		return
	}
	c.count("option-calls-return-during-a-pending-handshake")
	// a peer that never completes its handshake does not delay other peers
	p2, err := s.newControl("P2(connecting while the hostile connection is pending)")
	if err != nil {
		c.fail("C16/"+scen+"/new-peer-delayed/"+what+"/"+s.where(), "hang",
			"while a hostile connection had sent [%x] (%d bytes) and then %s, a new well behaved peer could not connect: %v", send, len(send), then, err)
		return
	}
	if !s.exchange(c, scen, what, p2) || !s.exchange(c, scen, what, p1) {
		return
	}

	want := 2
	if valid {
		want = 3
		if !s.ev.waitAttached(3) {
			c.fail("C16/"+scen+"/valid-header-not-attached/"+s.where(), "fail", "no pipe attached within %v for the valid header %x", watchdog, send[:8])
			return
		}
		c.count("valid-header-attached")
		if garbage {
			if !h.waitClosed(watchdog) {
				c.fail("C16/"+scen+"/garbage-not-dropped/"+s.where(), "hang",
					"garbage after a valid header (length field %x) did not make mangos drop the connection within %v", send[8:16], watchdog)
				return
			}
			c.count("garbage-dropped")
		} else {
			_ = h.c.Close()
		}
		if !s.ev.waitDetached(1) {
			c.fail("C16/"+scen+"/pipe-not-detached/"+what+"/"+s.where(), "hang", "the pipe of the ended hostile connection did not detach within %v", watchdog)
			return
		}
	} else if len(send) >= 8 || then == "half-close" {
		// the handshake cannot succeed any more: mangos ends the connection
		if !h.waitClosed(watchdog) {
			c.fail("C16/"+scen+"/ended-connection-not-closed/"+what+"/"+s.where(), "hang",
				"the hostile peer sent %x then %s; mangos did not close the connection within %v", send, then, watchdog)
			return
		}
		c.count("closed-by-mangos")
	}
	if !s.exchange(c, scen, what, p1) {
		return
	}
	if n := s.ev.nAttached(); n != want {
		c.fail("C16/"+scen+"/pipe-attached/"+what+"/"+s.where(), "fail",
			"%d pipes attached, expected %d (two control peers%s): a connection that sent %x as its header got a pipe", n, want,
			map[bool]string{true: " and the hostile connection with the valid header", false: ""}[valid], send)
		return
	}
	c.nontrivial(fmt.Sprintf("%s/%s/%s/%x/%s", tran, role, what, send, then))
	c.count(what)
}
