package c16

// The INDEPENDENT codec of the hostile peer: written from the SP stream / WebSocket mapping
// and RFC 6455 only; it uses nothing of mangos' transport code and not gorilla/websocket.

import (
	"bufio"
	"crypto/sha1"
	"encoding/base64"
	"errors"
	"fmt"
	"io"
	"net"
	"net/http"
	"strings"
	"time"
)

const watchdog = 10 * time.Second

// ---------------------------------------------------------------------------------
// SP stream mapping
// ---------------------------------------------------------------------------------

// spHeader is the 8 byte connection header: 00 'S' 'P' 00 <proto be16> 00 00.
func spHeader(proto uint16) []byte {
	return []byte{0x00, 0x53, 0x50, 0x00, byte(proto >> 8), byte(proto & 0xff), 0x00, 0x00}
}

func be64(v uint64) []byte {
	var p []byte
	for shift := 56; shift >= 0; shift -= 8 {
		p = append(p, byte(v>>uint(shift)))
	}
	return p
}

// spPrefix is what precedes the payload: the 64 bit big endian length field v, on IPC
// preceded by the message type byte (0x01 for a well formed message).
func spPrefix(ipc bool, typ byte, v uint64) []byte {
	var p []byte
	if ipc {
		p = append(p, typ)
	}
	return append(p, be64(v)...)
}

// spFrame is the complete wire image of one well formed message.
func spFrame(ipc bool, payload []byte) []byte {
	return append(spPrefix(ipc, 0x01, uint64(len(payload))), payload...)
}

// spReadFrame parses one message from r; limit bounds the accepted length.
func spReadFrame(r io.Reader, ipc bool, limit int) ([]byte, error) {
	n := 8
	if ipc {
		n = 9
	}
	prefix := make([]byte, n)
	if _, e := io.ReadFull(r, prefix); e != nil {
		return nil, fmt.Errorf("reading message prefix: %v", e)
	}
	p := prefix
	if ipc {
		if p[0] != 0x01 {
			return nil, fmt.Errorf("IPC message does not start with 0x01")
		}
		p = p[1:]
	}
	var v uint64
	for _, b := range p {
		v = v<<8 | uint64(b)
	}
	if v > uint64(limit) {
		return nil, fmt.Errorf("length %d exceeds anything that was sent", v)
	}
	payload := make([]byte, int(v))
	if k, e := io.ReadFull(r, payload); e != nil {
		return nil, fmt.Errorf("reading %d payload bytes: got %d: %v", v, k, e)
	}
	return payload, nil
}

// ---------------------------------------------------------------------------------
// RFC 6455
// ---------------------------------------------------------------------------------

const wsGUID = "258EAFA5-E914-47DA-95CA-C5AB0DC85B11"

const spSuffix = ".sp.nanomsg.org"

func wsAcceptKey(key string) string {
	h := sha1.Sum([]byte(key + wsGUID))
	return base64.StdEncoding.EncodeToString(h[:])
}

func headerHasToken(h http.Header, name, token string) bool {
	for _, v := range h[http.CanonicalHeaderKey(name)] {
		for _, t := range strings.Split(v, ",") {
			if strings.EqualFold(strings.TrimSpace(t), token) {
				return true
			}
		}
	}
	return false
}

func wsKey(seq uint32) string {
	var kb [16]byte
	x := seq*2654435761 + 0x9e3779b9
	for i := range kb {
		x = x*1664525 + 1013904223
		kb[i] = byte(x >> 24)
	}
	return base64.StdEncoding.EncodeToString(kb[:])
}

// wsUpgradeRequest is a well formed client opening handshake.
func wsUpgradeRequest(host, path, sub, key string) string {
	req := "GET " + path + " HTTP/1.1\r\n" +
		"Host: " + host + "\r\n" +
		"Upgrade: websocket\r\n" +
		"Connection: Upgrade\r\n"
	if key != "" {
		req += "Sec-WebSocket-Key: " + key + "\r\n"
	}
	req += "Sec-WebSocket-Version: 13\r\n"
	if sub != "" {
		req += "Sec-WebSocket-Protocol: " + sub + "\r\n"
	}
	return req + "\r\n"
}

// wsClientHandshake performs the client's opening handshake; the returned reader must be
// used for everything that follows (it may hold bytes that arrived with the answer).
func wsClientHandshake(c net.Conn, host, path, sub string, seq uint32) (br *bufio.Reader, status int, err error) {
	key := wsKey(seq)
	if _, err = io.WriteString(c, wsUpgradeRequest(host, path, sub, key)); err != nil {
		return nil, 0, err
	}
	br = bufio.NewReader(c)
	resp, err := http.ReadResponse(br, nil)
	if err != nil {
		return nil, 0, err
	}
	if resp.StatusCode != 101 {
		return nil, resp.StatusCode, fmt.Errorf("HTTP status %d", resp.StatusCode)
	}
	if !headerHasToken(resp.Header, "Upgrade", "websocket") || !headerHasToken(resp.Header, "Connection", "upgrade") {
		return nil, 101, fmt.Errorf("101 answer without Upgrade: websocket / Connection: Upgrade: %v", resp.Header)
	}
	if a := resp.Header.Get("Sec-WebSocket-Accept"); a != wsAcceptKey(key) {
		return nil, 101, fmt.Errorf("Sec-WebSocket-Accept %q, want %q", a, wsAcceptKey(key))
	}
	return br, 101, nil
}

// wsReadUpgrade reads a client's opening handshake (server side) and returns the key and the
// offered subprotocols.
func wsReadUpgrade(c net.Conn) (br *bufio.Reader, key string, offered []string, err error) {
	br = bufio.NewReader(c)
	req, err := http.ReadRequest(br)
	if err != nil {
		return nil, "", nil, fmt.Errorf("reading the HTTP upgrade request: %v", err)
	}
	if req.Method != "GET" || !headerHasToken(req.Header, "Upgrade", "websocket") || !headerHasToken(req.Header, "Connection", "upgrade") {
		return nil, "", nil, fmt.Errorf("request is not a WebSocket upgrade: %s %v", req.Method, req.Header)
	}
	key = req.Header.Get("Sec-WebSocket-Key")
	for _, v := range req.Header[http.CanonicalHeaderKey("Sec-WebSocket-Protocol")] {
		for _, t := range strings.Split(v, ",") {
			if t = strings.TrimSpace(t); t != "" {
				offered = append(offered, t)
			}
		}
	}
	return br, key, offered, nil
}

// wsAnswer101 is the server's 101 answer; accept "" omits Sec-WebSocket-Accept.
func wsAnswer101(accept, sub string) string {
	r := "HTTP/1.1 101 Switching Protocols\r\n" +
		"Upgrade: websocket\r\n" +
		"Connection: Upgrade\r\n"
	if accept != "" {
		r += "Sec-WebSocket-Accept: " + accept + "\r\n"
	}
	if sub != "" {
		r += "Sec-WebSocket-Protocol: " + sub + "\r\n"
	}
	return r + "\r\n"
}

// wsFrame builds one frame byte by byte.  b0 is the first byte (FIN, RSV1-3, opcode);
// declared is the announced payload length (force64 selects the 8 byte length form even
// for small values); masked adds the mask bit, the key and masks the payload that is
// actually sent (which may be shorter than declared).
func wsFrame(b0 byte, masked bool, declared uint64, force64 bool, payload []byte, key [4]byte) []byte {
	b := []byte{b0}
	mbit := byte(0)
	if masked {
		mbit = 0x80
	}
	switch {
	case force64 || declared >= 65536:
		b = append(b, mbit|127)
		b = append(b, be64(declared)...)
	case declared >= 126:
		b = append(b, mbit|126, byte(declared>>8), byte(declared))
	default:
		b = append(b, mbit|byte(declared))
	}
	if masked {
		b = append(b, key[:]...)
		for i, c := range payload {
			b = append(b, c^key[i&3])
		}
	} else {
		b = append(b, payload...)
	}
	return b
}

const (
	wsFin    = 0x80
	wsCont   = 0x0
	wsText   = 0x1
	wsBinary = 0x2
	wsClose  = 0x8
	wsPing   = 0x9
	wsPong   = 0xA
)

// ---------------------------------------------------------------------------------
// small shared helpers
// ---------------------------------------------------------------------------------

func isTimeout(err error) bool {
	var ne net.Error
	return errors.As(err, &ne) && ne.Timeout()
}

// fill returns n deterministic, position dependent bytes.
func fill(n int, salt uint32) []byte {
	b := make([]byte, n)
	x := salt*2654435761 + 0x7f4a7c15
	for i := range b {
		x = x*1664525 + 1013904223
		b[i] = byte(x>>24) ^ byte(i)
	}
	return b
}

func hexHead(b []byte) string {
	if len(b) <= 24 {
		return fmt.Sprintf("%x", b)
	}
	return fmt.Sprintf("%x..(%d bytes)", b[:24], len(b))
}
