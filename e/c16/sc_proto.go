package c16

import (
	"bytes"
	"fmt"
	"time"

	"go.nanomsg.org/mangos/v3"
	"go.nanomsg.org/mangos/v3/protocol/bus"
	"go.nanomsg.org/mangos/v3/protocol/pair"
	"go.nanomsg.org/mangos/v3/protocol/pair1"
	"go.nanomsg.org/mangos/v3/protocol/pull"
	"go.nanomsg.org/mangos/v3/protocol/rep"
	"go.nanomsg.org/mangos/v3/protocol/req"
	"go.nanomsg.org/mangos/v3/protocol/respondent"
	"go.nanomsg.org/mangos/v3/protocol/star"
	"go.nanomsg.org/mangos/v3/protocol/sub"
	"go.nanomsg.org/mangos/v3/protocol/surveyor"
	"go.nanomsg.org/mangos/v3/protocol/xbus"
	"go.nanomsg.org/mangos/v3/protocol/xpair"
	"go.nanomsg.org/mangos/v3/protocol/xpair1"
	"go.nanomsg.org/mangos/v3/protocol/xpull"
	"go.nanomsg.org/mangos/v3/protocol/xrep"
	"go.nanomsg.org/mangos/v3/protocol/xreq"
	"go.nanomsg.org/mangos/v3/protocol/xrespondent"
	"go.nanomsg.org/mangos/v3/protocol/xstar"
	"go.nanomsg.org/mangos/v3/protocol/xsub"
	"go.nanomsg.org/mangos/v3/protocol/xsurveyor"
)

// Scenario protocol: protocol level bodies over a real transport (tcp; thorough adds ipc and
// tls+tcp).  For each of the 20 socket kinds that can receive, the hostile peer (speaking the
// peer protocol after a correct handshake) sends every body of length <= 3 (thorough: <= 4,
// on tcp <= 5) over
// {00,01,7f,80,ff} as a WELL FORMED frame, each followed by a valid control message of the
// pattern on the SAME connection; for the REQ family additionally backtraces of 1..10 words
// and an unterminated one.
//
// Reference parser (refDeliveries), written from the SP protocol descriptions:
//
//	pair, pull, sub (subscribed to ""), bus   every body is a message
//	pair1, star      4 byte header: three zero bytes and a hop count below the limit (8);
//	                 shorter bodies and other headers are discarded
//	rep, respondent  backtrace words of 4 bytes up to and including the first with the high
//	                 bit set, at most 8 (the TTL); a body that ends before that is discarded
//	req, surveyor    first 4 bytes must be the id of the outstanding request/survey (which the
//	                 hostile peer reads from the wire first); anything else is discarded
//	raw (x) sockets  the same, and the header is handed to the application: x(s)req/xsurveyor
//	                 4 bytes; xrep/xrespondent pipe id + backtrace; xpair1/xstar hop count + 1;
//	                 xbus pipe id
//
// Oracle: the application receives exactly what the reference parser predicts for the body
// (bytes compared; for raw sockets header and body), then the control message; no panic.
var scProto = &scenario{name: "protocol_bodies", cases: protoCases, chunk: 40}

type pkind struct {
	name   string
	raw    bool
	peer   uint16 // protocol number the hostile peer announces
	family string // plain, bus, hop, server, client, xclient
	mk     func() (mangos.Socket, error)
}

var pkinds = []pkind{
	{"pair", false, 1*16 + 0, "plain", pair.NewSocket},
	{"xpair", true, 1*16 + 0, "plain", xpair.NewSocket},
	{"pair1", false, 1*16 + 1, "hop", pair1.NewSocket},
	{"xpair1", true, 1*16 + 1, "hop", xpair1.NewSocket},
	{"sub", false, 2*16 + 0, "plain", sub.NewSocket},
	{"xsub", true, 2*16 + 0, "plain", xsub.NewSocket},
	{"req", false, 3*16 + 1, "client", req.NewSocket},
	{"xreq", true, 3*16 + 1, "xclient", xreq.NewSocket},
	{"rep", false, 3*16 + 0, "server", rep.NewSocket},
	{"xrep", true, 3*16 + 0, "server", xrep.NewSocket},
	{"pull", false, 5*16 + 0, "plain", pull.NewSocket},
	{"xpull", true, 5*16 + 0, "plain", xpull.NewSocket},
	{"surveyor", false, 6*16 + 3, "client", surveyor.NewSocket},
	{"xsurveyor", true, 6*16 + 3, "xclient", xsurveyor.NewSocket},
	{"respondent", false, 6*16 + 2, "server", respondent.NewSocket},
	{"xrespondent", true, 6*16 + 2, "server", xrespondent.NewSocket},
	{"bus", false, 7*16 + 0, "bus", bus.NewSocket},
	{"xbus", true, 7*16 + 0, "bus", xbus.NewSocket},
	{"star", false, 100*16 + 0, "hop", star.NewSocket},
	{"xstar", true, 100*16 + 0, "hop", xstar.NewSocket},
}

const ttlWords = 8 // default TTL of the REQ family
const hopLimit = 8 // default TTL of pair1 / star

type delivery struct {
	hdr  []byte // nil: not compared (cooked sockets)
	body []byte
}

func be32(v uint32) []byte { return []byte{byte(v >> 24), byte(v >> 16), byte(v >> 8), byte(v)} }

// refDeliveries is the reference parser: what the application may see for the sequence of
// well formed frames with these bodies.  pipeID is the id of the hostile connection's pipe,
// id the outstanding request / survey id (client family).
func refDeliveries(k pkind, bodies [][]byte, pipeID uint32, id []byte) []delivery {
	var out []delivery
	outstanding := true
	hdr := func(h []byte) []byte {
		if !k.raw {
			return nil
		}
		if h == nil {
			h = []byte{}
		}
		return h
	}
	for _, b := range bodies {
		switch k.family {
		case "plain":
			out = append(out, delivery{hdr(nil), b})
		case "bus":
			out = append(out, delivery{hdr(be32(pipeID)), b})
		case "hop":
			if len(b) < 4 || b[0] != 0 || b[1] != 0 || b[2] != 0 || int(b[3]) >= hopLimit {
				continue
			}
			out = append(out, delivery{hdr([]byte{0, 0, 0, b[3] + 1}), b[4:]})
		case "xclient":
			if len(b) < 4 {
				continue
			}
			out = append(out, delivery{hdr(b[:4]), b[4:]})
		case "client":
			if len(b) < 4 || !bytes.Equal(b[:4], id) {
				continue
			}
			if k.name == "req" {
				if !outstanding {
					continue
				}
				outstanding = false // a reply completes the request
			}
			out = append(out, delivery{nil, b[4:]})
		case "server":
			h := be32(pipeID)
			rest := b
			ok := false
			for words := 0; words < ttlWords && len(rest) >= 4; words++ {
				w := rest[:4]
				h = append(h, w...)
				rest = rest[4:]
				if w[0]&0x80 != 0 {
					ok = true
					break
				}
			}
			if !ok {
				continue
			}
			out = append(out, delivery{hdr(h), rest})
		}
	}
	return out
}

// controlBody is a valid message of the pattern.
func controlBody(k pkind, id []byte, n int) []byte {
	tag := []byte(fmt.Sprintf("c16-sentinel-%s-%06d", k.name, n))
	switch k.family {
	case "hop":
		return append([]byte{0, 0, 0, 0}, tag...)
	case "xclient":
		return append([]byte{0x80, 0x00, 0x00, 0x02}, tag...)
	case "client":
		return append(append([]byte{}, id...), tag...)
	case "server":
		return append([]byte{0x80, 0x00, 0x00, 0x01}, tag...)
	}
	return tag
}

var protoAlphabet = []byte{0x00, 0x01, 0x7f, 0x80, 0xff}

func protoBodies(k pkind, maxLen int) [][]byte {
	var out [][]byte
	var rec func(prefix []byte)
	rec = func(prefix []byte) {
		out = append(out, append([]byte{}, prefix...))
		if len(prefix) == maxLen {
			return
		}
		for _, a := range protoAlphabet {
			rec(append(prefix, a))
		}
	}
	rec(nil)
	if k.family == "server" {
		for words := 1; words <= 10; words++ {
			var b []byte
			for i := 1; i < words; i++ {
				b = append(b, 0, 0, 0, byte(i))
			}
			b = append(b, 0x80, 0, 0, 1)
			out = append(out, append(b, 'x', 'y'))
		}
		out = append(out, []byte{0, 0, 0, 1, 0, 0, 0, 2, 0, 0, 0, 3})
		out = append(out, []byte{0, 0, 0, 1, 0x80, 0})
	}
	return out
}

func protoCases(tier string) []tcase {
	trans := []string{"tcp"}
	maxLen := map[string]int{"tcp": 3}
	if tier == "thorough" {
		trans = []string{"tcp", "ipc", "tls+tcp"}
		maxLen = map[string]int{"tcp": 5, "ipc": 4, "tls+tcp": 4}
	}
	var out []tcase
	for _, tran := range trans {
		for _, k := range pkinds {
			for _, b := range protoBodies(k, maxLen[tran]) {
				tran, k, b := tran, k, b
				out = append(out, tcase{label: fmt.Sprintf("protocol tran=%s role=listen socket=%s peer-proto=%d body=%x(%d bytes) then=control-message", tran, k.name, k.peer, b, len(b)),
					run: func(c *cctx) { runProto(c, k, tran, b) }})
			}
		}
	}
	return out
}

// pconn is a socket under test with one attached hostile connection (cached per job).
type pconn struct {
	s      *sut
	h      *hostile
	pipeID uint32
	seq    int
}

func (p *pconn) close() { p.s.close() }

func newPconn(k pkind, tran string) (*pconn, error) {
	s, err := newSUT(k.mk, tran, roleListen, 0, false)
	if err != nil {
		return nil, err
	}
	_ = s.sock.SetOption(mangos.OptionRecvDeadline, watchdog)
	switch k.name {
	case "sub":
		if err = s.sock.SetOption(mangos.OptionSubscribe, []byte("")); err != nil {
			s.close()
			return nil, fmt.Errorf("subscribe: %v", err)
		}
	case "surveyor":
		if err = s.sock.SetOption(mangos.OptionSurveyTime, 10*time.Minute); err != nil {
			s.close()
			return nil, fmt.Errorf("survey time: %v", err)
		}
	case "req":
		_ = s.sock.SetOption(mangos.OptionRetryTime, time.Duration(0))
	}
	h, err := s.hostileConn()
	if err != nil {
		s.close()
		return nil, err
	}
	if err = h.spHandshake(k.peer); err != nil {
		s.close()
		return nil, err
	}
	if !s.ev.waitAttached(1) {
		s.close()
		return nil, fmt.Errorf("no pipe after a correct handshake announcing protocol %d to a %s socket", k.peer, k.name)
	}
	return &pconn{s: s, h: h, pipeID: s.ev.lastID()}, nil
}

func showDeliveries(ds []delivery) string {
	if len(ds) == 0 {
		return "nothing"
	}
	out := ""
	for i, d := range ds {
		if i > 0 {
			out += ", "
		}
		if d.hdr != nil {
			out += fmt.Sprintf("{header %x body %s}", d.hdr, hexHead(d.body))
		} else {
			out += fmt.Sprintf("{body %s}", hexHead(d.body))
		}
	}
	return out
}

func runProto(c *cctx, k pkind, tran string, body []byte) {
	const scen = "protocol"
	key := k.name + "/" + tran
	var pc *pconn
	if x, ok := c.job.cache[key]; ok {
		pc = x.(*pconn)
	} else {
		var err error
		if pc, err = newPconn(k, tran); err != nil {
			c.setupErr("%s over %s: %v", k.name, tran, err)
			return
		}
		c.job.cache[key] = pc
	}
	ok := false
	defer func() {
		if !ok {
			c.job.drop(key) // the next case starts with a fresh socket and connection
		}
	}()
	pc.seq++
	where := k.name + "/" + tran
	ipc := tran == "ipc"

	var id []byte
	if k.family == "client" {
		// the socket sends a request / survey; the hostile peer learns its id from the wire
		if err := pc.s.sock.Send([]byte(fmt.Sprintf("c16-request-%06d", pc.seq))); err != nil {
			c.setupErr("%s: Send of the request: %v", k.name, err)
			return
		}
		_ = pc.h.c.SetReadDeadline(time.Now().Add(watchdog))
		fr, err := spReadFrame(pc.h.r, ipc, 1<<16)
		_ = pc.h.c.SetReadDeadline(time.Time{})
		if err != nil || len(fr) < 4 {
			c.setupErr("%s: reading the request from the wire: %v (%d bytes)", k.name, err, len(fr))
			return
		}
		id = fr[:4]
		c.ops(1)
	}
	ctlBody := controlBody(k, id, pc.seq)
	want := refDeliveries(k, [][]byte{body, ctlBody}, pc.pipeID, id)
	wantCtl := refDeliveries(k, [][]byte{ctlBody}, pc.pipeID, id)
	if len(wantCtl) != 1 {
		c.setupErr("harness: the control message of %s is not valid by the reference parser", k.name)
		return
	}
	// when the body itself completes a REQ request the control reply is (rightly) dropped
	ctlExpected := len(want) > 0 && bytes.Equal(want[len(want)-1].body, wantCtl[0].body)

	wire := append(spFrame(ipc, body), spFrame(ipc, ctlBody)...)
	if err := pc.h.write(wire); err != nil {
		c.fail("C16/"+scen+"/connection-lost/"+where, "fail", "writing a well formed frame and the control message: %v", err)
		return
	}
	c.ops(2)

	var got []delivery
	sawCtl := false
	for len(got) < len(want)+2 {
		m, err := pc.s.sock.RecvMsg()
		if err != nil {
			if len(got) == len(want) && !ctlExpected {
				break // REQ: nothing more to come
			}
			c.fail("C16/"+scen+"/control-message-not-delivered/"+where, "hang",
				"after the body %x the valid control message of the same connection was not delivered: RecvMsg: %v (received so far: %s; predicted: %s)",
				body, err, showDeliveries(got), showDeliveries(want))
			return
		}
		d := delivery{body: append([]byte{}, m.Body...)}
		if k.raw {
			d.hdr = append([]byte{}, m.Header...)
		}
		m.Free()
		got = append(got, d)
		c.ops(1)
		if bytes.Equal(d.body, wantCtl[0].body) {
			sawCtl = true
			break
		}
		if !ctlExpected && len(got) == len(want) {
			break
		}
	}
	_ = sawCtl
	same := len(got) == len(want)
	if same {
		for i := range got {
			if !bytes.Equal(got[i].body, want[i].body) || (k.raw && !bytes.Equal(got[i].hdr, want[i].hdr)) {
				same = false
			}
		}
	}
	if !same {
		sig := "delivered-not-as-predicted"
		switch {
		case len(got) > len(want):
			sig = "delivered-beyond-well-formed"
		case len(got) < len(want):
			sig = "well-formed-not-delivered"
		}
		c.fail("C16/"+scen+"/"+sig+"/"+where, "fail",
			"body %x (%d bytes) then control message: the application received %s; the reference parser predicts %s",
			body, len(body), showDeliveries(got), showDeliveries(want))
		return
	}
	ok = true
	if len(want) > 1 {
		c.count("body-delivered")
	} else {
		c.count("body-discarded")
	}
	c.nontrivial(fmt.Sprintf("%s/%s/%x", k.name, tran, body))
}
