// Package c12 is the engine E part of property C12 that needs real TLS handshakes:
//
//	"... a Listen or Dial that fails for configuration or network reasons can be corrected
//	 and retried, and rejecting or losing a connection at any stage never stops a listener
//	 from accepting or a dialer from redialling."
//
// Scenario dialer-tls-config-corrected.  The dialers of the two TLS transports (tls+tcp, wss)
// take their TLS configuration from OptionTLSConfig.  A case is
//
//	transport (tls+tcp, wss)
//	x what is wrong with the configuration the dialer starts with
//	    untrusted-ca      an empty pool of root certificates
//	    other-ca          the pool of another certificate authority
//	    wrong-servername  the right pool, a server name the certificate does not carry
//	x history
//	    asynch/k   asynchronous Dial (ReconnectTime 10 ms); k = 1, 3 attempts have arrived at the
//	               listener and have failed; then Dialer.SetOption(OptionTLSConfig, correct)
//	    synch      synchronous Dial returns the handshake error; SetOption(correct); Dial on the
//	               same Dialer again: it connects.  (A Dialer whose synchronous Dial failed used to
//	               answer every later Dial with ErrAddrInUse - found by this scenario, repaired in
//	               /repo; that answer, like any other error, is a violation.)
//	    rotated    the reverse order of events: the dialer is connected with a correct
//	               configuration; the server is replaced by one whose certificate comes from
//	               another authority (the connection is lost, the redial fails: one attempt has
//	               arrived and failed); then SetOption(OptionTLSConfig, the new authority)
//
// and in every case: SetOption returns nil, GetOption returns the value just set, the dialer
// connects (Attached on the dialing socket within the 10 s watchdog) and a message travels in
// each direction; Close of the dialer and of the sockets returns.
//
// Connection attempts are made observable by a TCP forwarder of the harness that stands between
// the dialer and the listening mangos socket: it counts the connections that arrived and the
// connections that ended, so "k attempts have failed" is a fact that is waited for, not a sleep.
// When the dialer does not connect after the correction, the message says how many further
// attempts arrived (the dialer is redialling, with the configuration that was replaced).
//
// Every failing case is run three times on fresh objects; a signature is reported only if it
// fails every time.
package c12

import (
	"crypto/tls"
	"crypto/x509"
	"fmt"
	"io"
	"log"
	"net"
	"strings"
	"sync"
	"sync/atomic"
	"time"

	"go.nanomsg.org/mangos/v3"
	"go.nanomsg.org/mangos/v3/internal/test"
	"go.nanomsg.org/mangos/v3/protocol/pair"
	_ "go.nanomsg.org/mangos/v3/transport/all"
	"go.nanomsg.org/mangos/v3/ve/ekit"
)

const (
	watchdog  = 10 * time.Second // hang bound of every call and of every "eventually"
	pollEvery = 2 * time.Millisecond
	reconnect = 10 * time.Millisecond
	path      = "/c12"
)

func init() {
	ekit.Register("C12", ekit.Scenario{Name: "dialer-tls-config-corrected", Run: runCorrected})
}

type tran struct {
	name, scheme string
}

var trans = []tran{{"tls", "tls+tcp"}, {"wss", "wss"}}

func (t tran) addr(hostport string) string {
	if t.scheme == "wss" {
		return t.scheme + "://" + hostport + path
	}
	return t.scheme + "://" + hostport
}

var wrongs = []string{"untrusted-ca", "other-ca", "wrong-servername"}

type spec struct {
	t     tran
	wrong string
	hist  string // "asynch", "synch", "rotated"
	k     int
}

func (s spec) String() string {
	switch s.hist {
	case "asynch":
		return fmt.Sprintf("transport=%s dialer starts with %s; asynchronous Dial, %d attempt(s) failed, then SetOption(OptionTLSConfig, correct)", s.t.name, s.wrong, s.k)
	case "synch":
		return fmt.Sprintf("transport=%s dialer starts with %s; synchronous Dial fails, SetOption(OptionTLSConfig, correct), Dial again", s.t.name, s.wrong)
	}
	return fmt.Sprintf("transport=%s dialer connected; server replaced by one with a certificate of another authority, %d redial(s) failed, then SetOption(OptionTLSConfig, new authority)", s.t.name, s.k)
}

func (s spec) sig(check string) string {
	w := s.wrong
	if s.hist == "rotated" {
		w = "rotated"
	}
	return "C12/tls-config/" + check + "/" + s.t.name + "/" + s.hist + "/" + w
}

func specs(tier string) []spec {
	ks := []int{1, 3}
	if tier == "thorough" {
		ks = []int{1, 2, 3, 5}
	}
	var out []spec
	for _, t := range trans {
		for _, w := range wrongs {
			for _, k := range ks {
				out = append(out, spec{t, w, "asynch", k})
			}
			out = append(out, spec{t, w, "synch", 1})
		}
		for _, k := range ks {
			out = append(out, spec{t, "", "rotated", k})
		}
	}
	return out
}

// ---------------------------------------------------------------------------------------
// forwarder

type forwarder struct {
	ln      net.Listener
	mu      sync.Mutex
	target  string
	arrived int64
	ended   int64
	conns   map[net.Conn]bool
}

func newForwarder(target string) (*forwarder, error) {
	ln, err := net.Listen("tcp", "127.0.0.1:0")
	if err != nil {
		return nil, err
	}
	f := &forwarder{ln: ln, target: target, conns: map[net.Conn]bool{}}
	go f.serve()
	return f, nil
}

func (f *forwarder) hostport() string { return f.ln.Addr().String() }

func (f *forwarder) setTarget(t string) {
	f.mu.Lock()
	f.target = t
	f.mu.Unlock()
}

func (f *forwarder) track(c net.Conn, on bool) {
	f.mu.Lock()
	if on {
		f.conns[c] = true
	} else {
		delete(f.conns, c)
	}
	f.mu.Unlock()
}

func (f *forwarder) serve() {
	for {
		c, err := f.ln.Accept()
		if err != nil {
			return
		}
		atomic.AddInt64(&f.arrived, 1)
		f.mu.Lock()
		target := f.target
		f.mu.Unlock()
		go func() {
			defer atomic.AddInt64(&f.ended, 1)
			defer c.Close()
			f.track(c, true)
			defer f.track(c, false)
			u, err := net.DialTimeout("tcp", target, watchdog)
			if err != nil {
				return
			}
			defer u.Close()
			f.track(u, true)
			defer f.track(u, false)
			done := make(chan struct{}, 2)
			go func() { _, _ = io.Copy(u, c); done <- struct{}{} }()
			go func() { _, _ = io.Copy(c, u); done <- struct{}{} }()
			<-done
			_ = c.Close()
			_ = u.Close()
			<-done
		}()
	}
}

func (f *forwarder) close() {
	_ = f.ln.Close()
	f.mu.Lock()
	for c := range f.conns {
		_ = c.Close()
	}
	f.mu.Unlock()
}

// ---------------------------------------------------------------------------------------
// helpers

func guarded(fn func()) bool {
	done := make(chan struct{})
	go func() {
		defer close(done)
		fn()
	}()
	t := time.NewTimer(watchdog)
	defer t.Stop()
	select {
	case <-done:
		return true
	case <-t.C:
		return false
	}
}

func eventually(cond func() bool) bool {
	until := time.Now().Add(watchdog)
	for {
		if cond() {
			return true
		}
		if time.Now().After(until) {
			return cond()
		}
		time.Sleep(pollEvery)
	}
}

func errText(err error) string {
	if err == nil {
		return "nil"
	}
	s := err.Error()
	if len(s) > 120 {
		s = s[:120]
	}
	return s
}

type endpoint struct {
	s        mangos.Socket
	attached int32
	detached int32
}

func newEndpoint() (*endpoint, error) {
	s, err := pair.NewSocket()
	if err != nil {
		return nil, err
	}
	e := &endpoint{s: s}
	s.SetPipeEventHook(func(ev mangos.PipeEvent, _ mangos.Pipe) {
		switch ev {
		case mangos.PipeEventAttached:
			atomic.AddInt32(&e.attached, 1)
		case mangos.PipeEventDetached:
			atomic.AddInt32(&e.detached, 1)
		}
	})
	_ = s.SetOption(mangos.OptionRecvDeadline, watchdog)
	_ = s.SetOption(mangos.OptionSendDeadline, watchdog)
	return e, nil
}

func (e *endpoint) att() int { return int(atomic.LoadInt32(&e.attached)) }
func (e *endpoint) det() int { return int(atomic.LoadInt32(&e.detached)) }

func wrongConfig(kind string, good *tls.Config) (*tls.Config, error) {
	switch kind {
	case "untrusted-ca":
		return &tls.Config{ServerName: "127.0.0.1", RootCAs: x509.NewCertPool()}, nil
	case "other-ca":
		_, other, _, err := test.NewTLSConfig()
		return other, err
	case "wrong-servername":
		c := good.Clone()
		c.ServerName = "not-the-server.mangos.example.com"
		return c, nil
	}
	return nil, fmt.Errorf("unknown kind %q", kind)
}

type caseRun struct {
	sp     spec
	fails  map[string]string
	counts map[string]int
	ops    int
	setup  string
}

func (c *caseRun) fail(check, format string, a ...interface{}) {
	k := c.sp.sig(check)
	if _, ok := c.fails[k]; !ok {
		c.fails[k] = fmt.Sprintf(format, a...)
	}
}

// listenServer makes a pair socket listening on the transport with a fresh authority.
func listenServer(t tran) (*endpoint, string, *tls.Config, error) {
	srvCfg, cliCfg, _, err := test.NewTLSConfig()
	if err != nil {
		return nil, "", nil, err
	}
	e, err := newEndpoint()
	if err != nil {
		return nil, "", nil, err
	}
	l, err := e.s.NewListener(t.addr("127.0.0.1:0"), map[string]interface{}{mangos.OptionTLSConfig: srvCfg})
	if err == nil {
		err = l.Listen()
	}
	if err != nil {
		_ = e.s.Close()
		return nil, "", nil, err
	}
	a := l.Address()
	hp := a[strings.Index(a, "://")+3:]
	if i := strings.IndexByte(hp, '/'); i >= 0 {
		hp = hp[:i]
	}
	return e, hp, cliCfg, nil
}

// exchange: one message in each direction between cli and srv.
func (c *caseRun) exchange(cli, srv *endpoint, tag string) {
	c.ops += 4
	var err error
	var body []byte
	if !guarded(func() { err = cli.s.Send([]byte("ping-" + tag)) }) || err != nil {
		c.fail("message", "after the dialer connected: Send on the dialing socket: %s", errText(err))
		return
	}
	if !guarded(func() { body, err = srv.s.Recv() }) || err != nil || string(body) != "ping-"+tag {
		c.fail("message", "after the dialer connected: the listening socket received %q, %s (expected %q)", body, errText(err), "ping-"+tag)
		return
	}
	if !guarded(func() { err = srv.s.Send([]byte("pong-" + tag)) }) || err != nil {
		c.fail("message", "after the dialer connected: Send on the listening socket: %s", errText(err))
		return
	}
	if !guarded(func() { body, err = cli.s.Recv() }) || err != nil || string(body) != "pong-"+tag {
		c.fail("message", "after the dialer connected: the dialing socket received %q, %s (expected %q)", body, errText(err), "pong-"+tag)
	}
}

// correct installs cfg on d and checks that the dialer says it has it.
func (c *caseRun) correct(d mangos.Dialer, cfg *tls.Config) bool {
	c.ops += 2
	var err error
	if !guarded(func() { err = d.SetOption(mangos.OptionTLSConfig, cfg) }) {
		c.fail("setoption-hang", "Dialer.SetOption(OptionTLSConfig) after failed attempts did not return within %v", watchdog)
		return false
	}
	if err != nil {
		c.fail("setoption", "Dialer.SetOption(OptionTLSConfig, correct configuration) after failed attempts: %s", errText(err))
		return false
	}
	var v interface{}
	if !guarded(func() { v, err = d.GetOption(mangos.OptionTLSConfig) }) {
		c.fail("getoption-hang", "Dialer.GetOption(OptionTLSConfig) did not return within %v", watchdog)
		return false
	}
	if got, _ := v.(*tls.Config); err != nil || got != cfg {
		c.fail("getoption", "Dialer.GetOption(OptionTLSConfig) after SetOption: %v, %s; not the value that was set", v, errText(err))
	}
	return true
}

// connectedAfter waits for the dialer to get through once the configuration is correct.
func (c *caseRun) connectedAfter(cli *endpoint, want int, f *forwarder, what string) bool {
	a0 := atomic.LoadInt64(&f.arrived)
	if eventually(func() bool { return cli.att() >= want }) {
		return true
	}
	more := atomic.LoadInt64(&f.arrived) - a0
	c.fail("never-connected", "%s: no connection within %v; %d further connection attempt(s) of the dialer arrived at the listener in that time and every one failed (the dialer keeps redialling, the corrected configuration is not what it dials with)", what, watchdog, more)
	return false
}

func runCase(sp spec) *caseRun {
	c := &caseRun{sp: sp, fails: map[string]string{}, counts: map[string]int{}}
	srv, hp, goodCfg, err := listenServer(sp.t)
	if err != nil {
		c.setup = "listen: " + err.Error()
		return c
	}
	defer func() { guarded(func() { _ = srv.s.Close() }) }()
	fw, err := newForwarder(hp)
	if err != nil {
		c.setup = "forwarder: " + err.Error()
		return c
	}
	defer fw.close()
	cli, err := newEndpoint()
	if err != nil {
		c.setup = err.Error()
		return c
	}
	closed := false
	closeCli := func() {
		if !closed {
			closed = true
			if !guarded(func() { _ = cli.s.Close() }) {
				c.fail("close-hang", "Close of the dialing socket did not return within %v", watchdog)
			}
		}
	}
	defer closeCli()
	addr := sp.t.addr(fw.hostport())
	opts := func(cfg *tls.Config, asynch bool) map[string]interface{} {
		return map[string]interface{}{
			mangos.OptionTLSConfig:        cfg,
			mangos.OptionDialAsynch:       asynch,
			mangos.OptionReconnectTime:    reconnect,
			mangos.OptionMaxReconnectTime: 5 * reconnect,
		}
	}
	closeDialer := func(d mangos.Dialer) {
		c.ops++
		if !guarded(func() { _ = d.Close() }) {
			c.fail("dialer-close-hang", "Dialer.Close did not return within %v", watchdog)
		}
	}

	switch sp.hist {
	case "asynch":
		wrong, err := wrongConfig(sp.wrong, goodCfg)
		if err != nil {
			c.setup = err.Error()
			return c
		}
		d, err := cli.s.NewDialer(addr, opts(wrong, true))
		if err != nil {
			c.setup = "NewDialer: " + err.Error()
			return c
		}
		c.ops += 2
		var derr error
		if !guarded(func() { derr = d.Dial() }) || derr != nil {
			c.fail("asynch-dial", "asynchronous Dial: %s", errText(derr))
			return c
		}
		if !eventually(func() bool { return atomic.LoadInt64(&fw.ended) >= int64(sp.k) || cli.att() > 0 }) {
			c.setup = fmt.Sprintf("only %d attempt(s) arrived and %d ended within %v", atomic.LoadInt64(&fw.arrived), atomic.LoadInt64(&fw.ended), watchdog)
			return c
		}
		if cli.att() > 0 {
			c.fail("connected-with-wrong-config", "the dialer connected with a configuration that must not verify the server (%s)", sp.wrong)
			return c
		}
		c.counts["attempts-failed-before-correction"] += int(atomic.LoadInt64(&fw.ended))
		if !c.correct(d, goodCfg) {
			return c
		}
		if c.connectedAfter(cli, 1, fw, "after SetOption(OptionTLSConfig, correct configuration) on the redialling dialer") {
			c.counts["connected-after-correction"]++
			c.exchange(cli, srv, "asynch")
		}
		closeDialer(d)

	case "synch":
		wrong, err := wrongConfig(sp.wrong, goodCfg)
		if err != nil {
			c.setup = err.Error()
			return c
		}
		d, err := cli.s.NewDialer(addr, opts(wrong, false))
		if err != nil {
			c.setup = "NewDialer: " + err.Error()
			return c
		}
		c.ops += 2
		var derr error
		if !guarded(func() { derr = d.Dial() }) {
			c.fail("dial-hang", "synchronous Dial against a server it cannot verify did not return within %v", watchdog)
			return c
		}
		if derr == nil {
			c.fail("connected-with-wrong-config", "synchronous Dial succeeded with a configuration that must not verify the server (%s)", sp.wrong)
			return c
		}
		first := errText(derr)
		c.counts["attempts-failed-before-correction"]++
		if !c.correct(d, goodCfg) {
			return c
		}
		c.ops++
		if !guarded(func() { derr = d.Dial() }) {
			c.fail("dial-hang", "the second Dial on the dialer did not return within %v", watchdog)
			return c
		}
		switch derr {
		case nil:
			c.counts["synch-retry-on-same-dialer-connected"]++
		case mangos.ErrAddrInUse:
			// the dialer object counts itself as started although its synchronous Dial failed and
			// nothing is running: the corrected Dial cannot be retried on it (C12: "a Dial that
			// fails for configuration or network reasons can be corrected and retried")
			c.counts["synch-retry-on-same-dialer-refused"]++
			c.fail("retry-on-same-dialer-refused", "first Dial: %s; SetOption(OptionTLSConfig, correct configuration) returned nil; Dial on the same Dialer again: ErrAddrInUse (the dialer counts itself as started although the synchronous attempt failed and no redial is scheduled)", first)
			closeDialer(d)
			d, err = cli.s.NewDialer(addr, opts(goodCfg, false))
			if err != nil {
				c.fail("retry", "NewDialer on the socket after a failed Dial: %s", errText(err))
				return c
			}
			c.ops += 2
			if !guarded(func() { derr = d.Dial() }) || derr != nil {
				c.fail("retry", "Dial through a new Dialer of the same socket with the correct configuration, after the first Dial failed (%s): %s", first, errText(derr))
				return c
			}
		default:
			c.fail("retry", "first Dial: %s; SetOption(OptionTLSConfig, correct configuration) returned nil; Dial again: %s", first, errText(derr))
			return c
		}
		if c.connectedAfter(cli, 1, fw, "after the retried Dial returned nil") {
			c.counts["connected-after-correction"]++
			c.exchange(cli, srv, "synch")
		}
		closeDialer(d)

	case "rotated":
		d, err := cli.s.NewDialer(addr, opts(goodCfg, false))
		if err != nil {
			c.setup = "NewDialer: " + err.Error()
			return c
		}
		c.ops += 2
		var derr error
		if !guarded(func() { derr = d.Dial() }) || derr != nil {
			c.fail("dial", "Dial with the correct configuration: %s", errText(derr))
			return c
		}
		if !eventually(func() bool { return cli.att() >= 1 }) {
			c.fail("dial", "Dial returned nil and no pipe was attached within %v", watchdog)
			return c
		}
		c.exchange(cli, srv, "before")
		if len(c.fails) > 0 {
			return c
		}
		// the replacement server: another authority
		srv2, hp2, cfg2, err := listenServer(sp.t)
		if err != nil {
			c.setup = "listen (replacement): " + err.Error()
			return c
		}
		defer func() { guarded(func() { _ = srv2.s.Close() }) }()
		e0 := atomic.LoadInt64(&fw.ended)
		fw.setTarget(hp2)
		c.ops++
		guarded(func() { _ = srv.s.Close() })
		if !eventually(func() bool { return cli.det() >= 1 }) {
			c.setup = "the dialing socket did not notice that the server went away"
			return c
		}
		// e0 counts connections that ended before; +1 for the connection that was lost
		if !eventually(func() bool { return atomic.LoadInt64(&fw.ended) >= e0+1+int64(sp.k) || cli.att() > 1 }) {
			c.fail("redial-stopped", "after the connection was lost only %d redial attempt(s) arrived within %v", atomic.LoadInt64(&fw.ended)-e0-1, watchdog)
			return c
		}
		if cli.att() > 1 {
			c.fail("connected-with-wrong-config", "the dialer connected to the replacement server, whose certificate its configuration must not verify")
			return c
		}
		c.counts["attempts-failed-before-correction"] += sp.k
		if !c.correct(d, cfg2) {
			return c
		}
		if c.connectedAfter(cli, 2, fw, "after SetOption(OptionTLSConfig, configuration for the new authority) on the redialling dialer") {
			c.counts["reconnected-after-rotation"]++
			c.exchange(cli, srv2, "after")
		}
		closeDialer(d)
	}
	closeCli()
	return c
}

func runCorrected(st *ekit.Stats, tier string) {
	// the http server under wss logs every failed TLS handshake
	w := log.Writer()
	log.SetOutput(io.Discard)
	defer log.SetOutput(w)

	// cases are independent (sockets, authorities and ports of their own); a failing case sits
	// out the watchdog, so they run side by side
	var wg sync.WaitGroup
	sem := make(chan struct{}, 8)
	for _, sp := range specs(tier) {
		sp := sp
		wg.Add(1)
		go func() {
			defer wg.Done()
			sem <- struct{}{}
			defer func() { <-sem }()
			first := runCase(sp)
			st.Case(first.ops)
			if first.setup != "" {
				st.Count("setup-error")
				st.Cap("setup error: " + sp.String() + ": " + first.setup)
				return
			}
			fails := first.fails
			for rep := 0; rep < 3 && len(fails) > 0; rep++ {
				again := runCase(sp)
				for k := range fails {
					if _, ok := again.fails[k]; !ok {
						delete(fails, k)
						st.Count("unconfirmed-failure")
					}
				}
			}
			for sig, msg := range fails {
				st.Fail(sig, "fail", sp.String(), "%s (4/4 runs on fresh objects)", msg)
			}
			if len(fails) == 0 {
				st.Nontrivial(sp.String())
				for k, n := range first.counts {
					for i := 0; i < n; i++ {
						st.Count(k)
					}
				}
				st.Sample(map[string]interface{}{"case": sp.String(), "counts": first.counts})
			}
		}()
	}
	wg.Wait()
}
