// Package c13 is the engine E harness of property C13 over the REAL transports
// (inproc, ipc, tcp, tls+tcp, ws, wss): every pipe gets a consistent lifecycle and a
// unique id, and Pipe.Address/Dialer/Listener and the pipe's read-only options describe
// the actual connection and the endpoint that created it.
//
// The event grammar under all schedules is decided by engine S over a virtual
// transport; this package checks that the same grammar and the pipe descriptions hold
// on connections made by the operating system.  Two families of scenarios:
//
//   - descriptions: for every transport and every socket kind with its natural peer,
//     three connections through two listeners; both ends of every connection are
//     compared with the endpoint objects, with each other (local/remote address,
//     TLS session) and with the process (peer credentials).
//   - lifecycle-listen / lifecycle-dial: for every transport and socket kind all
//     operation lists up to a bounded length over {peer connects, peer closes,
//     application closes the newest attached pipe, hook closes the next pipe during
//     Attaching, hook closes the next pipe during Attached, (PAIR) a second peer
//     connects while one is attached}, then Close.  An event hook on every socket of
//     the case and a pass-through wrapper around every protocol record what core
//     reports and what core tells the protocol.
//
// The oracles are schedule independent: "never" clauses are checked on every event,
// "eventually" clauses are polled under a generous watchdog, the wall clock is used for
// nothing else.  A failing case is re-run three times on fresh sockets and reported only
// if the same signature fails every time.
package c13

import (
	"crypto/tls"
	"fmt"
	"io"
	"log"
	"os"
	"strings"
	"sync"
	"sync/atomic"
	"time"

	"go.nanomsg.org/mangos/v3"
	"go.nanomsg.org/mangos/v3/internal/core"
	"go.nanomsg.org/mangos/v3/internal/test"
	"go.nanomsg.org/mangos/v3/protocol"
	"go.nanomsg.org/mangos/v3/protocol/bus"
	"go.nanomsg.org/mangos/v3/protocol/pair"
	"go.nanomsg.org/mangos/v3/protocol/pair1"
	"go.nanomsg.org/mangos/v3/protocol/pub"
	"go.nanomsg.org/mangos/v3/protocol/pull"
	"go.nanomsg.org/mangos/v3/protocol/push"
	"go.nanomsg.org/mangos/v3/protocol/rep"
	"go.nanomsg.org/mangos/v3/protocol/req"
	"go.nanomsg.org/mangos/v3/protocol/respondent"
	"go.nanomsg.org/mangos/v3/protocol/star"
	"go.nanomsg.org/mangos/v3/protocol/sub"
	"go.nanomsg.org/mangos/v3/protocol/surveyor"
	"go.nanomsg.org/mangos/v3/protocol/xbus"
	"go.nanomsg.org/mangos/v3/protocol/xpair"
	"go.nanomsg.org/mangos/v3/protocol/xpair1"
	"go.nanomsg.org/mangos/v3/protocol/xpub"
	"go.nanomsg.org/mangos/v3/protocol/xpull"
	"go.nanomsg.org/mangos/v3/protocol/xpush"
	"go.nanomsg.org/mangos/v3/protocol/xrep"
	"go.nanomsg.org/mangos/v3/protocol/xreq"
	"go.nanomsg.org/mangos/v3/protocol/xrespondent"
	"go.nanomsg.org/mangos/v3/protocol/xstar"
	"go.nanomsg.org/mangos/v3/protocol/xsub"
	"go.nanomsg.org/mangos/v3/protocol/xsurveyor"
	_ "go.nanomsg.org/mangos/v3/transport/all"
	"go.nanomsg.org/mangos/v3/ve/ekit"
)

// ---------------------------------------------------------------------------------
// tunables (none of them is part of an oracle)

const (
	watchdog    = 10 * time.Second      // bound of every "eventually" poll and of every blocking call
	stableFor   = 50 * time.Millisecond // quiescence: no event on any socket of the case for this long
	pollEvery   = 2 * time.Millisecond
	reconnect   = 10 * time.Millisecond  // ReconnectTime of every dialer
	reconnMax   = 100 * time.Millisecond // MaxReconnectTime (back-off bound while the peer is gone)
	unknownName = "C13-NO-SUCH-OPTION"
	envFilter   = "C13_FILTER" // substring of a case description: run only those cases (triage)
	envWorkers  = "C13_WORKERS"
)

// ---------------------------------------------------------------------------------
// transports

type tran struct {
	name   string
	scheme string
	tls    bool
	tcp    bool // host:port addresses
}

var trans = []*tran{
	{"inproc", "inproc", false, false},
	{"ipc", "ipc", false, false},
	{"tcp", "tcp", false, true},
	{"tls", "tls+tcp", true, true},
	{"ws", "ws", false, true},
	{"wss", "wss", true, true},
}

var (
	tlsOnce        sync.Once
	tlsSrv, tlsCli *tls.Config
	tlsCli12       *tls.Config
	tlsErr         error
	addrSeq        uint64
)

func tlsConfigs() (*tls.Config, *tls.Config, *tls.Config, error) {
	tlsOnce.Do(func() {
		tlsSrv, tlsCli, _, tlsErr = test.NewTLSConfig()
		if tlsErr == nil {
			tlsCli12 = tlsCli.Clone()
			tlsCli12.MaxVersion = tls.VersionTLS12
		}
	})
	return tlsSrv, tlsCli, tlsCli12, tlsErr
}

// serverCertDER is the leaf certificate the listeners present.
func serverCertDER() []byte {
	s, _, _, err := tlsConfigs()
	if err != nil || len(s.Certificates) == 0 || len(s.Certificates[0].Certificate) == 0 {
		return nil
	}
	return s.Certificates[0].Certificate[0]
}

func (t *tran) listenAddr() string {
	n := atomic.AddUint64(&addrSeq, 1)
	switch t.scheme {
	case "inproc":
		return fmt.Sprintf("inproc://c13-%d-%d", os.Getpid(), n)
	case "ipc":
		dir := ekit.Tmp
		if len(dir) > 70 { // sun_path is 108 bytes
			dir = os.TempDir()
		}
		return fmt.Sprintf("ipc://%s/c13-%d-%d.sock", dir, os.Getpid(), n)
	case "ws", "wss":
		return fmt.Sprintf("%s://127.0.0.1:0/c13", t.scheme)
	}
	return t.scheme + "://127.0.0.1:0"
}

// listenOpts / dialOpts: the option maps handed to NewListener / NewDialer.  tls12
// selects the client configuration that negotiates TLS 1.2, so that two connections
// of one listener have observably different TLS sessions.
func (t *tran) listenOpts() (map[string]interface{}, error) {
	if !t.tls {
		return nil, nil
	}
	s, _, _, err := tlsConfigs()
	if err != nil {
		return nil, err
	}
	return map[string]interface{}{mangos.OptionTLSConfig: s}, nil
}

func (t *tran) dialOpts(tls12 bool, redial bool) (map[string]interface{}, error) {
	o := map[string]interface{}{}
	if redial {
		o[mangos.OptionReconnectTime] = reconnect
		o[mangos.OptionMaxReconnectTime] = reconnMax
	}
	if t.tls {
		_, c, c12, err := tlsConfigs()
		if err != nil {
			return nil, err
		}
		if tls12 {
			c = c12
		}
		o[mangos.OptionTLSConfig] = c
	}
	return o, nil
}

// ---------------------------------------------------------------------------------
// socket kinds

type kind struct {
	name     string
	raw      bool
	peer     string // the natural peer
	pairLike bool   // the protocol accepts one pipe at a time and refuses the others
	newProto func() protocol.Protocol
	newSock  func() (mangos.Socket, error)
}

var kinds = []*kind{
	{"pair", false, "pair", true, pair.NewProtocol, pair.NewSocket},
	{"pair1", false, "pair1", true, pair1.NewProtocol, pair1.NewSocket},
	{"req", false, "rep", false, req.NewProtocol, req.NewSocket},
	{"rep", false, "req", false, rep.NewProtocol, rep.NewSocket},
	{"pub", false, "sub", false, pub.NewProtocol, pub.NewSocket},
	{"sub", false, "pub", false, sub.NewProtocol, sub.NewSocket},
	{"push", false, "pull", false, push.NewProtocol, push.NewSocket},
	{"pull", false, "push", false, pull.NewProtocol, pull.NewSocket},
	{"surveyor", false, "respondent", false, surveyor.NewProtocol, surveyor.NewSocket},
	{"respondent", false, "surveyor", false, respondent.NewProtocol, respondent.NewSocket},
	{"bus", false, "bus", false, bus.NewProtocol, bus.NewSocket},
	{"star", false, "star", false, star.NewProtocol, star.NewSocket},
	{"xpair", true, "xpair", true, xpair.NewProtocol, xpair.NewSocket},
	{"xpair1", true, "xpair1", true, xpair1.NewProtocol, xpair1.NewSocket},
	{"xreq", true, "xrep", false, xreq.NewProtocol, xreq.NewSocket},
	{"xrep", true, "xreq", false, xrep.NewProtocol, xrep.NewSocket},
	{"xpub", true, "xsub", false, xpub.NewProtocol, xpub.NewSocket},
	{"xsub", true, "xpub", false, xsub.NewProtocol, xsub.NewSocket},
	{"xpush", true, "xpull", false, xpush.NewProtocol, xpush.NewSocket},
	{"xpull", true, "xpush", false, xpull.NewProtocol, xpull.NewSocket},
	{"xsurveyor", true, "xrespondent", false, xsurveyor.NewProtocol, xsurveyor.NewSocket},
	{"xrespondent", true, "xsurveyor", false, xrespondent.NewProtocol, xrespondent.NewSocket},
	{"xbus", true, "xbus", false, xbus.NewProtocol, xbus.NewSocket},
	{"xstar", true, "xstar", false, xstar.NewProtocol, xstar.NewSocket},
}

func kindByName(n string) *kind {
	for _, k := range kinds {
		if k.name == n {
			return k
		}
	}
	panic("no kind " + n)
}

// quickKinds: the five pairings of the quick tier; each side of a pairing is the socket
// under test in turn (pair, req, rep, pub, sub, bus, xreq, xrep).
var quickKinds = []string{"pair", "req", "pub", "bus", "xreq"}

func tierKinds(tier string) []*kind {
	if tier == "thorough" {
		return kinds
	}
	var ks []*kind
	seen := map[string]bool{}
	for _, n := range quickKinds {
		for _, m := range []string{n, kindByName(n).peer} {
			if !seen[m] {
				seen[m] = true
				ks = append(ks, kindByName(m))
			}
		}
	}
	return ks
}

// ---------------------------------------------------------------------------------
// violations of one case

type viol struct {
	sig  string
	kind string // "fail" or "hang"
	msg  string
}

type violSet struct {
	mu sync.Mutex
	v  []viol
}

func (vs *violSet) add(kind, sig, format string, a ...interface{}) {
	vs.mu.Lock()
	defer vs.mu.Unlock()
	for _, x := range vs.v {
		if x.sig == sig {
			return
		}
	}
	vs.v = append(vs.v, viol{sig: sig, kind: kind, msg: fmt.Sprintf(format, a...)})
}

func (vs *violSet) list() []viol {
	vs.mu.Lock()
	defer vs.mu.Unlock()
	return append([]viol(nil), vs.v...)
}

// confirmed: signatures that were already confirmed (3 of 3 re-runs) in a scenario.
var confirmed sync.Map // scenario + "\x00" + sig -> true

// confirm runs a case, and if it fails re-runs it three times on fresh sockets; a
// signature is reported only if every re-run produces it again.  A case that fails
// with nothing but signatures already confirmed on an earlier case of the scenario
// only adds to their counts (a tree that fails everywhere would otherwise spend the
// whole budget in watchdogs).
func confirm(st *ekit.Stats, input string, run func() []viol) {
	first := run()
	if len(first) == 0 {
		return
	}
	known := true
	for _, v := range first {
		if _, ok := confirmed.Load(st.Scenario + "\x00" + v.sig); !ok {
			known = false
		}
	}
	if known {
		for _, v := range first {
			st.Fail(v.sig, v.kind, input, "%s", v.msg)
		}
		return
	}
	again := map[string]int{}
	for i := 0; i < 3; i++ {
		if st.OutOfTime() {
			st.Count("unconfirmed-out-of-time")
			st.Cap("time budget: a failing case could not be re-run 3 times")
			return
		}
		seen := map[string]bool{}
		for _, v := range run() {
			if !seen[v.sig] {
				seen[v.sig] = true
				again[v.sig]++
			}
		}
	}
	for _, v := range first {
		if again[v.sig] == 3 {
			confirmed.Store(st.Scenario+"\x00"+v.sig, true)
			st.Fail(v.sig, v.kind, input, "%s", v.msg)
		} else {
			st.Count("unconfirmed")
			st.Count("unconfirmed:" + v.sig)
		}
	}
}

// guarded runs f and reports whether it returned within the watchdog.
func guarded(f func()) bool {
	done := make(chan struct{})
	go func() {
		defer close(done)
		f()
	}()
	t := time.NewTimer(watchdog)
	defer t.Stop()
	select {
	case <-done:
		return true
	case <-t.C:
		return false
	}
}

// eventually polls cond under the watchdog.
func eventually(cond func() bool) bool {
	until := time.Now().Add(watchdog)
	for {
		if cond() {
			return true
		}
		if time.Now().After(until) {
			return cond()
		}
		time.Sleep(pollEvery)
	}
}

// ---------------------------------------------------------------------------------
// process-wide registry of live pipes (lifecycle scenarios: every socket of the process
// is instrumented while they run)

var registry = struct {
	mu   sync.Mutex
	live map[uint32]*pipeRec
}{live: map[uint32]*pipeRec{}}

// regEnter records that pr is live with its id; it returns the other live pipe that
// has the same id, if any.
func regEnter(pr *pipeRec) *pipeRec {
	registry.mu.Lock()
	defer registry.mu.Unlock()
	other := registry.live[pr.id]
	registry.live[pr.id] = pr
	if other == pr {
		return nil
	}
	return other
}

func regLeave(pr *pipeRec) {
	registry.mu.Lock()
	if registry.live[pr.id] == pr {
		delete(registry.live, pr.id)
	}
	registry.mu.Unlock()
}

func regHolder(id uint32) *pipeRec {
	registry.mu.Lock()
	defer registry.mu.Unlock()
	return registry.live[id]
}

// ---------------------------------------------------------------------------------
// recorder: one per socket

const (
	evAttaching = iota
	evAttached
	evDetached
	evAddOK
	evAddRefused
	evRemove
)

var evNames = []string{"Attaching", "Attached", "Detached", "AddPipe=ok", "AddPipe=refused", "RemovePipe"}

type entry struct {
	ev int
	pr *pipeRec
}

// pipeRec is everything seen about one pipe.
type pipeRec struct {
	r                 *sockRec
	n                 int // ordinal on its socket
	p                 mangos.Pipe
	id                uint32
	first             int // first event seen
	nAttaching        int
	nAttached         int
	nDetached         int
	nAdd, nAddOK      int
	nRem              int
	closedInAttaching bool // our hook closed it during Attaching
	closedInAttached  bool // our hook closed it during Attached
	appClosed         bool // the harness called Pipe.Close
	refused           bool // the protocol's AddPipe returned an error
	detachedReturned  bool
	dialer            mangos.Dialer
}

func (pr *pipeRec) String() string {
	return fmt.Sprintf("%s.pipe#%d(id=%#x)", pr.r.name, pr.n, pr.id)
}

type dialRec struct {
	d         mangos.Dialer
	addr      string
	peer      *sockRec // role D: the peer this dialer connects to
	n         int      // connections made (Attaching events through it)
	exhausted bool     // budget used up: the hook closed the dialer
}

type sockRec struct {
	c      *caseCtx
	name   string
	sock   mangos.Socket
	spied  bool
	closed bool // the harness closed the socket (or is doing so)

	mu           sync.Mutex
	log          []entry
	pipes        map[interface{}]*pipeRec
	order        []*pipeRec
	armAttaching int
	armAttached  int
	listeners    map[mangos.Listener]string // listener -> its Address()
	dialers      map[mangos.Dialer]*dialRec
	budget       int // connections per dialer before the hook closes the dialer
}

// caseCtx is shared by the sockets of one case.
type caseCtx struct {
	vs    violSet
	ver   uint64 // bumped on every recorded event: quiescence detection
	socks []*sockRec
	mu    sync.Mutex
	t     *tran
	fam   string // "life" or "desc"
	role  string // life: "listen" / "dial" (what the socket under test does)
	st    *ekit.Stats
}

func (c *caseCtx) bump() { atomic.AddUint64(&c.ver, 1) }

// sig builds a violation signature: check/transport/role.
func (c *caseCtx) sig(check string) string {
	s := "C13/" + c.fam + "/" + check + "/" + c.t.name
	if c.role != "" {
		s += "/" + c.role
	}
	return s
}

// setupError: the environment refused something that is not under test (socket
// creation, Listen on a fresh address, ...): the case is not evaluated, the scenario is
// marked incomplete.
func (c *caseCtx) setupError(what string, err error) {
	c.st.Count("setup-error")
	c.st.Count("setup-error:" + what)
	c.st.Cap(fmt.Sprintf("setup error (%s: %v)", what, err))
}

// quiesce waits until no socket of the case has recorded anything for stableFor (or
// the watchdog expires; no oracle depends on which).
func (c *caseCtx) quiesce() {
	until := time.Now().Add(watchdog)
	last := atomic.LoadUint64(&c.ver)
	since := time.Now()
	for {
		time.Sleep(pollEvery)
		now := time.Now()
		v := atomic.LoadUint64(&c.ver)
		if v != last {
			last, since = v, now
		} else if now.Sub(since) >= stableFor {
			return
		}
		if now.After(until) {
			return
		}
	}
}

// spy wraps a protocol; core talks to the protocol through it.
type spy struct {
	protocol.Protocol
	r *sockRec
}

func (s *spy) AddPipe(pp protocol.Pipe) error {
	err := s.Protocol.AddPipe(pp)
	s.r.noteAdd(pp, err)
	return err
}

func (s *spy) RemovePipe(pp protocol.Pipe) {
	s.r.noteRemove(pp)
	s.Protocol.RemovePipe(pp)
}

// newSock creates an instrumented socket of the kind.  With spied the protocol is
// wrapped (exactly what NewSocket does, plus the wrapper); otherwise the kind's own
// NewSocket is used.
func (c *caseCtx) newSock(name string, k *kind, spied bool) (*sockRec, error) {
	r := &sockRec{c: c, name: name, spied: spied,
		pipes: map[interface{}]*pipeRec{}, listeners: map[mangos.Listener]string{}, dialers: map[mangos.Dialer]*dialRec{}}
	if spied {
		r.sock = protocol.MakeSocket(&spy{Protocol: k.newProto(), r: r})
	} else {
		s, err := k.newSock()
		if err != nil {
			return nil, err
		}
		r.sock = s
	}
	r.sock.SetPipeEventHook(r.hook)
	c.mu.Lock()
	c.socks = append(c.socks, r)
	c.mu.Unlock()
	return r, nil
}

func (r *sockRec) rec(key interface{}) *pipeRec {
	return r.pipes[key]
}

func (r *sockRec) newRec(p mangos.Pipe, first int) *pipeRec {
	pr := &pipeRec{r: r, p: p, id: p.ID(), first: first, n: len(r.order) + 1}
	r.pipes[interface{}(p)] = pr
	r.order = append(r.order, pr)
	return pr
}

// hook is the pipe event hook of the socket.
func (r *sockRec) hook(ev mangos.PipeEvent, p mangos.Pipe) {
	c := r.c
	id := p.ID()
	used := core.VerifPipeIDUsed(id)
	var e int
	switch ev {
	case mangos.PipeEventAttaching:
		e = evAttaching
	case mangos.PipeEventAttached:
		e = evAttached
	case mangos.PipeEventDetached:
		e = evDetached
	default:
		c.vs.add("fail", c.sig("unknown-event"), "%s: hook called with event %d", r.name, int(ev))
		return
	}

	closeIt := false
	var exhaust mangos.Dialer
	r.mu.Lock()
	pr := r.rec(interface{}(p))
	fresh := pr == nil
	if fresh {
		pr = r.newRec(p, e)
	}
	// Attached may be reported while, or after, Detached is: the pipe was closed
	// between the protocol accepting it and the Attached callback.  Once the Detached
	// callback has returned the id may be free; "used" was sampled before this point,
	// so an id found free with no Detached recorded yet was released too early.
	mustBeReserved := e != evAttached || pr.nDetached == 0
	r.log = append(r.log, entry{e, pr})
	switch e {
	case evAttaching:
		pr.nAttaching++
		if !fresh {
			if pr.first != evAttaching {
				c.vs.add("fail", c.sig("attaching-not-first"), "%v: %s was reported before Attaching", pr, evNames[pr.first])
			} else {
				c.vs.add("fail", c.sig("attaching-twice"), "%v: Attaching reported %d times", pr, pr.nAttaching)
			}
		}
		if d := p.Dialer(); d != nil {
			pr.dialer = d
			if dr := r.dialers[d]; dr != nil {
				dr.n++
				if r.budget > 0 && dr.n >= r.budget && !dr.exhausted {
					dr.exhausted = true
					exhaust = d
				}
			}
		}
		if r.armAttaching > 0 {
			r.armAttaching--
			pr.closedInAttaching = true
			closeIt = true
		}
	case evAttached:
		pr.nAttached++
		if fresh {
			c.vs.add("fail", c.sig("attaching-not-first"), "%v: Attached is the first event of the pipe", pr)
		}
		if pr.nDetached > 0 {
			c.st.Count("attached-reported-after-detached-began")
		}
		if pr.nAttached > 1 {
			c.vs.add("fail", c.sig("attached-twice"), "%v: Attached reported %d times", pr, pr.nAttached)
		}
		if pr.closedInAttaching {
			c.vs.add("fail", c.sig("closed-in-attaching-then-attached"), "%v was closed by the hook during Attaching and Attached was reported", pr)
		}
		if pr.refused {
			c.vs.add("fail", c.sig("refused-pipe-attached"), "%v: the protocol refused the pipe (AddPipe error) and Attached was reported", pr)
		}
		if r.armAttached > 0 && !closeIt {
			r.armAttached--
			pr.closedInAttached = true
			closeIt = true
		}
	case evDetached:
		pr.nDetached++
		if fresh {
			c.vs.add("fail", c.sig("attaching-not-first"), "%v: Detached is the first event of the pipe", pr)
		}
		if pr.nDetached > 1 {
			c.vs.add("fail", c.sig("detached-twice"), "%v: Detached reported %d times", pr, pr.nDetached)
		}
		if pr.closedInAttaching {
			c.vs.add("fail", c.sig("closed-in-attaching-then-detached"), "%v was closed by the hook during Attaching and Detached was reported", pr)
		}
		if pr.refused {
			c.vs.add("fail", c.sig("refused-pipe-detached"), "%v: the protocol refused the pipe (AddPipe error) and Detached was reported", pr)
		}
	}
	r.mu.Unlock()
	c.bump()

	// the id
	if id == 0 || id >= 1<<31 {
		c.vs.add("fail", c.sig("id-out-of-range"), "%v: pipe id %#x is not a non-zero 31-bit value (in %s)", pr, id, evNames[e])
	}
	if id != pr.id {
		c.vs.add("fail", c.sig("id-changed"), "%v: ID() returned %#x in %s", pr, id, evNames[e])
	}
	if !used && mustBeReserved {
		c.vs.add("fail", c.sig("id-not-reserved-in-"+strings.ToLower(evNames[e])), "%v: the id is not reserved in the process-wide allocator while the %s callback runs", pr, evNames[e])
	}
	if e == evAttaching && r.spied {
		if other := regEnter(pr); other != nil {
			c.vs.add("fail", c.sig("id-shared"), "%v has the id of %v, which is still live (its Detached callback has not returned)", pr, other)
		}
	}

	// what the pipe says about where it comes from
	r.checkOrigin(pr, evNames[e])

	if exhaust != nil {
		go func() { _ = exhaust.Close() }()
	}
	if closeIt {
		_ = p.Close()
	}

	switch {
	case e == evDetached:
		r.mu.Lock()
		pr.detachedReturned = true
		r.mu.Unlock()
		regLeave(pr)
	case e == evAttaching && closeIt:
		regLeave(pr)
	}
	c.bump()
}

// checkOrigin: Pipe.Address/Dialer/Listener name the endpoint object that made the pipe.
func (r *sockRec) checkOrigin(pr *pipeRec, when string) {
	c := r.c
	p := pr.p
	d, l := p.Dialer(), p.Listener()
	addr := p.Address()
	switch {
	case d != nil && l != nil:
		c.vs.add("fail", c.sig("origin-both"), "%v: both Dialer() and Listener() are non-nil (in %s)", pr, when)
	case d == nil && l == nil:
		c.vs.add("fail", c.sig("origin-none"), "%v: both Dialer() and Listener() are nil (in %s)", pr, when)
	case d != nil:
		r.mu.Lock()
		dr := r.dialers[d]
		r.mu.Unlock()
		if dr == nil {
			c.vs.add("fail", c.sig("origin-unknown-dialer"), "%v: Dialer() is not a dialer created on %s (in %s)", pr, r.name, when)
		} else if addr != dr.addr || addr != d.Address() {
			c.vs.add("fail", c.sig("address-of-dialed-pipe"), "%v: Address() = %q, its dialer was created for %q (Dialer().Address() = %q) (in %s)", pr, addr, dr.addr, d.Address(), when)
		}
	default:
		r.mu.Lock()
		la, ok := r.listeners[l]
		r.mu.Unlock()
		if !ok {
			c.vs.add("fail", c.sig("origin-unknown-listener"), "%v: Listener() is not a listener created on %s (in %s)", pr, r.name, when)
		} else if addr != la {
			c.vs.add("fail", c.sig("address-of-accepted-pipe"), "%v: Address() = %q, its listener's Address() is %q (in %s)", pr, addr, la, when)
		}
	}
}

func (r *sockRec) noteAdd(pp protocol.Pipe, err error) {
	c := r.c
	r.mu.Lock()
	pr := r.rec(interface{}(pp))
	if pr == nil {
		r.mu.Unlock()
		c.vs.add("fail", c.sig("addpipe-before-attaching"), "%s: the protocol was given a pipe (id %#x) that was never reported Attaching", r.name, pp.ID())
		c.bump()
		return
	}
	pr.nAdd++
	if err == nil {
		pr.nAddOK++
		r.log = append(r.log, entry{evAddOK, pr})
	} else {
		pr.refused = true
		r.log = append(r.log, entry{evAddRefused, pr})
	}
	if pr.nAdd > 1 {
		c.vs.add("fail", c.sig("addpipe-twice"), "%v: the protocol was told of the arrival %d times", pr, pr.nAdd)
	}
	if err != nil && (pr.nAttached > 0 || pr.nDetached > 0) {
		c.vs.add("fail", c.sig("refused-pipe-attached"), "%v: Attached/Detached (%d/%d) reported for a pipe the protocol then refused (%v)", pr, pr.nAttached, pr.nDetached, err)
	}
	r.mu.Unlock()
	if err != nil {
		regLeave(pr)
	}
	c.bump()
}

func (r *sockRec) noteRemove(pp protocol.Pipe) {
	c := r.c
	r.mu.Lock()
	pr := r.rec(interface{}(pp))
	if pr == nil {
		r.mu.Unlock()
		c.vs.add("fail", c.sig("removepipe-unknown"), "%s: the protocol was told of the departure of a pipe (id %#x) that was never reported Attaching", r.name, pp.ID())
		c.bump()
		return
	}
	pr.nRem++
	r.log = append(r.log, entry{evRemove, pr})
	if pr.nRem > 1 {
		c.vs.add("fail", c.sig("removepipe-twice"), "%v: the protocol was told of the departure %d times", pr, pr.nRem)
	}
	if pr.nAddOK == 0 {
		c.vs.add("fail", c.sig("removepipe-without-addpipe"), "%v: the protocol was told of the departure of a pipe it never accepted", pr)
	}
	r.mu.Unlock()
	c.bump()
}

// snapshot helpers -----------------------------------------------------------------

func (r *sockRec) count(f func(*pipeRec) bool) int {
	r.mu.Lock()
	defer r.mu.Unlock()
	n := 0
	for _, pr := range r.order {
		if f(pr) {
			n++
		}
	}
	return n
}

func (r *sockRec) nAttaching() int {
	return r.count(func(pr *pipeRec) bool { return pr.nAttaching > 0 })
}

// liveAttached: pipes reported Attached and not (yet) Detached.
func (r *sockRec) liveAttached() int {
	return r.count(func(pr *pipeRec) bool { return pr.nAttached > 0 && pr.nDetached == 0 })
}

func (r *sockRec) newestAttached() *pipeRec {
	r.mu.Lock()
	defer r.mu.Unlock()
	for i := len(r.order) - 1; i >= 0; i-- {
		pr := r.order[i]
		if pr.nAttached > 0 && pr.nDetached == 0 && !pr.appClosed {
			return pr
		}
	}
	return nil
}

func (r *sockRec) recs() []*pipeRec {
	r.mu.Lock()
	defer r.mu.Unlock()
	return append([]*pipeRec(nil), r.order...)
}

// history renders the log of the socket (for violation messages).
func (r *sockRec) history() string {
	r.mu.Lock()
	defer r.mu.Unlock()
	var sb strings.Builder
	for i, e := range r.log {
		if i > 0 {
			sb.WriteString(" ")
		}
		if i >= 40 {
			fmt.Fprintf(&sb, "... (%d more)", len(r.log)-i)
			break
		}
		fmt.Fprintf(&sb, "#%d:%s", e.pr.n, evNames[e.ev])
	}
	return r.name + "[" + sb.String() + "]"
}

// finalChecks: the per-pipe clauses that hold once everything is closed.  Called
// after the sockets were closed; "eventually" parts are polled.
func (r *sockRec) finalChecks() {
	c := r.c
	recs := r.recs()
	get := func(pr *pipeRec) (a, at, de, add, ok, rem int, cia, ref bool) {
		r.mu.Lock()
		defer r.mu.Unlock()
		return pr.nAttaching, pr.nAttached, pr.nDetached, pr.nAdd, pr.nAddOK, pr.nRem, pr.closedInAttaching, pr.refused
	}
	// Detached exactly once iff Attached was (or is being) reported: one watchdog
	// window for all pipes of the socket to settle.
	eventually(func() bool {
		for _, pr := range recs {
			_, at, de, _, ok, rem, _, _ := get(pr)
			if at != de || (r.spied && ok != rem) {
				return false
			}
		}
		return true
	})
	for _, pr := range recs {
		a, at, de, add, ok, rem, cia, ref := get(pr)
		if a != 1 {
			c.vs.add("fail", c.sig("attaching-count"), "%v: Attaching reported %d times; %s", pr, a, r.history())
		}
		switch {
		case at > 0 && de == 0:
			c.vs.add("fail", c.sig("attached-never-detached"), "%v: Attached was reported, the socket is closed, Detached was not reported within %v; %s", pr, watchdog, r.history())
		case de > 0 && at == 0:
			c.vs.add("fail", c.sig("detached-never-attached"), "%v: Detached was reported, Attached never was (waited %v); %s", pr, watchdog, r.history())
		}
		if (cia || ref) && (at > 0 || de > 0) {
			c.vs.add("fail", c.sig("unattached-pipe-has-events"), "%v was closed during Attaching (%v) / refused by the protocol (%v) and has Attached=%d Detached=%d; %s", pr, cia, ref, at, de, r.history())
		}
		if r.spied {
			if at > 0 && ok != 1 {
				c.vs.add("fail", c.sig("attached-without-addpipe"), "%v: Attached reported, the protocol accepted the pipe %d times (AddPipe called %d times); %s", pr, ok, add, r.history())
			}
			if ok != rem {
				c.vs.add("fail", c.sig("arrival-departure-mismatch"), "%v: the protocol accepted the pipe %d times and was told of its departure %d times after everything was closed; %s", pr, ok, rem, r.history())
			}
		}
	}
}

// idsReleased: every id seen on the socket is eventually free again (unless another
// live pipe legitimately got it in the meantime).
func (r *sockRec) idsReleased() {
	c := r.c
	recs := r.recs()
	for _, pr := range recs {
		regLeave(pr) // nothing of this case is live any more
	}
	free := func(pr *pipeRec) bool {
		if !core.VerifPipeIDUsed(pr.id) {
			return true
		}
		h := regHolder(pr.id)
		return h != nil && h != pr
	}
	eventually(func() bool {
		for _, pr := range recs {
			if !free(pr) {
				return false
			}
		}
		return true
	})
	for _, pr := range recs {
		if !free(pr) {
			c.vs.add("fail", c.sig("id-not-released"), "%v: the id is still allocated %v after every socket of the case was closed; %s", pr, watchdog, r.history())
		}
	}
}

// ---------------------------------------------------------------------------------
// scenario plumbing

// runPool runs the cases on n workers; each case is confirmed when it fails.
type job struct {
	input string
	ops   int
	run   func() []viol
}

func workers(def int) int {
	if s := os.Getenv(envWorkers); s != "" {
		var n int
		if _, err := fmt.Sscanf(s, "%d", &n); err == nil && n > 0 {
			return n
		}
	}
	return def
}

func runPool(st *ekit.Stats, n int, jobs []job) {
	filter := os.Getenv(envFilter)
	if filter != "" {
		var js []job
		for _, j := range jobs {
			if strings.Contains(j.input, filter) {
				js = append(js, j)
			}
		}
		jobs = js
		st.Cap("filtered by " + envFilter + "=" + filter)
	}
	ch := make(chan job)
	var wg sync.WaitGroup
	var skipped int64
	for i := 0; i < n; i++ {
		wg.Add(1)
		go func() {
			defer wg.Done()
			for j := range ch {
				if st.OutOfTime() {
					atomic.AddInt64(&skipped, 1)
					continue
				}
				st.Case(j.ops)
				confirm(st, j.input, j.run)
			}
		}()
	}
	for _, j := range jobs {
		ch <- j
	}
	close(ch)
	wg.Wait()
	if skipped > 0 {
		st.Cap(fmt.Sprintf("time budget: %d of %d cases not run", skipped, len(jobs)))
	}
	// every socket of the scenario is closed: nothing may be left allocated
	if !eventually(func() bool { return core.VerifPipeIDsInUse() == 0 }) {
		st.Fail("C13/ids-in-use-after-all-sockets-closed", "fail", "scenario "+st.Scenario,
			"%d pipe ids are still allocated %v after every socket of the scenario was closed", core.VerifPipeIDsInUse(), watchdog)
	}
}

// quietLog silences the standard logger while a scenario runs: net/http (under the ws
// transports) logs every connection that is closed in the middle of a handshake, which
// the operations of the lifecycle scenarios do on purpose.
func quietLog() func() {
	w := log.Writer()
	log.SetOutput(io.Discard)
	return func() { log.SetOutput(w) }
}
