package c13

import (
	"fmt"
	"sort"
	"sync"
	"sync/atomic"
	"time"

	"go.nanomsg.org/mangos/v3"
	"go.nanomsg.org/mangos/v3/protocol/pull"
	"go.nanomsg.org/mangos/v3/protocol/push"
	"go.nanomsg.org/mangos/v3/ve/ekit"
)

// C13/pending-accepts: the accept loop of a listening socket is held up (its hook is still busy
// with the Attaching event of the first connection) while n = 2..4 further peers connect and
// complete the transport level handshake, so that several connections wait in the transport
// listener at once.  When the hook returns, every one of those connections gets its own pipe:
// Attaching and Attached exactly once each, as many attached pipes as peers, and (on the address
// carrying transports) the remote addresses of the listener's pipes are exactly the local addresses
// of the dialers' pipes - no connection handed out twice, none forgotten.
//
// case = transport x n; PULL listens, PUSH peers dial.

func init() {
	ekit.Register("C13", ekit.Scenario{Name: "C13/pending-accepts", Run: runPending})
	// C02: PUSH peers that connect while the accept loop is busy are each attached (none twice,
	// none forgotten): every connected PULL peer is there to take messages
	ekit.Register("C02", ekit.Scenario{Name: "C13/pending-accepts", Run: runPending})
}

func runPending(st *ekit.Stats, tier string) {
	maxN := 3
	if tier == "thorough" {
		maxN = 4
	}
	restore := quietLog()
	defer restore()
	for _, t := range trans {
		for n := 2; n <= maxN; n++ {
			in := fmt.Sprintf("transport=%s peers-waiting=%d", t.name, n)
			var fails map[string]string
			for rep := 0; rep < 3; rep++ {
				f := pendingCase(t, n)
				if rep == 0 {
					fails = f
				} else {
					for k := range fails {
						if _, ok := f[k]; !ok {
							delete(fails, k)
						}
					}
				}
				if len(fails) == 0 {
					break
				}
			}
			st.Case(2*n + 6)
			st.Nontrivial(in)
			for sig, msg := range fails {
				st.Fail(sig, "fail", in, "%s (3/3 runs)", msg)
			}
		}
	}
}

func addrOf(p mangos.Pipe, opt string) string {
	v, err := p.GetOption(opt)
	if err != nil || v == nil {
		return ""
	}
	if s, ok := v.(fmt.Stringer); ok {
		return s.String()
	}
	return fmt.Sprint(v)
}

func pendingCase(t *tran, n int) map[string]string {
	fails := map[string]string{}
	srv, err := pull.NewSocket()
	if err != nil {
		return map[string]string{"C13/pending/setup": err.Error()}
	}
	defer srv.Close()
	var mu sync.Mutex
	park := make(chan struct{})
	var parked int32
	attaching := map[mangos.Pipe]int{}
	attached := map[mangos.Pipe]int{}
	var remotes []string
	srv.SetPipeEventHook(func(ev mangos.PipeEvent, p mangos.Pipe) {
		switch ev {
		case mangos.PipeEventAttaching:
			mu.Lock()
			attaching[p]++
			mu.Unlock()
			if atomic.CompareAndSwapInt32(&parked, 0, 1) {
				<-park
			}
		case mangos.PipeEventAttached:
			mu.Lock()
			attached[p]++
			remotes = append(remotes, addrOf(p, mangos.OptionRemoteAddr))
			mu.Unlock()
		}
	})
	lo, err := t.listenOpts()
	if err != nil {
		return map[string]string{"C13/pending/setup": err.Error()}
	}
	l, err := srv.NewListener(t.listenAddr(), lo)
	if err != nil {
		return map[string]string{"C13/pending/setup": "NewListener: " + err.Error()}
	}
	if err := l.Listen(); err != nil {
		return map[string]string{"C13/pending/setup": "Listen: " + err.Error()}
	}
	var once sync.Once
	release := func() { once.Do(func() { close(park) }) }
	defer release()

	var locals []string
	var cmu sync.Mutex
	clientUp := int32(0)
	var clients []mangos.Socket
	defer func() {
		for _, c := range clients {
			_ = c.Close()
		}
	}()
	dial := func() string {
		c, err := push.NewSocket()
		if err != nil {
			return err.Error()
		}
		clients = append(clients, c)
		c.SetPipeEventHook(func(ev mangos.PipeEvent, p mangos.Pipe) {
			if ev == mangos.PipeEventAttached {
				cmu.Lock()
				locals = append(locals, addrOf(p, mangos.OptionLocalAddr))
				cmu.Unlock()
				atomic.AddInt32(&clientUp, 1)
			}
		})
		do, err := t.dialOpts(false, false)
		if err != nil {
			return err.Error()
		}
		do[mangos.OptionDialAsynch] = true
		d, err := c.NewDialer(l.Address(), do)
		if err != nil {
			return "NewDialer: " + err.Error()
		}
		if err := d.Dial(); err != nil {
			return "Dial: " + err.Error()
		}
		return ""
	}
	wait := func(d time.Duration, cond func() bool) bool {
		end := time.Now().Add(d)
		for time.Now().Before(end) {
			if cond() {
				return true
			}
			time.Sleep(2 * time.Millisecond)
		}
		return cond()
	}
	if e := dial(); e != "" {
		return map[string]string{"C13/pending/setup": e}
	}
	if !wait(10*time.Second, func() bool { return atomic.LoadInt32(&parked) == 1 }) {
		return map[string]string{"C13/pending/setup": "the accept loop never reached the Attaching hook"}
	}
	for i := 0; i < n; i++ {
		if e := dial(); e != "" {
			return map[string]string{"C13/pending/setup": e}
		}
	}
	// the dialing sides attach as soon as the transport level handshake is through (inproc dials
	// wait for the accept loop instead: nothing to wait for there)
	if t.scheme != "inproc" {
		wait(10*time.Second, func() bool { return atomic.LoadInt32(&clientUp) == int32(n+1) })
	}
	time.Sleep(30 * time.Millisecond)
	release()
	total := n + 1
	ok := wait(10*time.Second, func() bool {
		mu.Lock()
		defer mu.Unlock()
		return len(attached) >= total
	})
	time.Sleep(50 * time.Millisecond)
	mu.Lock()
	defer mu.Unlock()
	if !ok || len(attached) != total {
		fails["C13/pending/connection-forgotten/"+t.name] = fmt.Sprintf("%d peers connected (%d of them while the accept loop was busy), %d pipes were attached on the listening socket (%d got Attaching)", total, n, len(attached), len(attaching))
	}
	for p, k := range attaching {
		if k != 1 || attached[p] > 1 {
			fails["C13/pending/events-repeated/"+t.name] = fmt.Sprintf("pipe %08x: Attaching %d times, Attached %d times", p.ID(), k, attached[p])
		}
	}
	if t.tcp {
		cmu.Lock()
		a, b := append([]string{}, remotes...), append([]string{}, locals...)
		cmu.Unlock()
		sort.Strings(a)
		sort.Strings(b)
		for i := 1; i < len(a); i++ {
			if a[i] == a[i-1] && a[i] != "" {
				fails["C13/pending/connection-handed-out-twice/"+t.name] = fmt.Sprintf("two pipes of the listening socket report the same remote address %s (remote addresses %v, dialers' local addresses %v)", a[i], a, b)
			}
		}
		if len(a) == total && len(b) == total && fmt.Sprint(a) != fmt.Sprint(b) {
			fails["C13/pending/addresses-differ/"+t.name] = fmt.Sprintf("remote addresses of the listener's pipes %v are not the local addresses of the dialers' pipes %v", a, b)
		}
	}
	return fails
}
