package c13

import (
	"bytes"
	"crypto/tls"
	"fmt"
	"net"
	"os"
	"runtime"
	"strings"

	"go.nanomsg.org/mangos/v3"
	"go.nanomsg.org/mangos/v3/ve/ekit"
)

// Descriptions.
//
// A case is (transport, kind of the dialing sockets; the listening socket has the
// natural peer kind).  The listening socket B gets two listeners L1, L2 on distinct
// addresses.  Three fresh sockets A0, A1, A2 dial L1, L2, L1 one after the other, each
// through a dialer object of its own; on TLS transports A2 (the second connection of L1) offers at most TLS 1.2, so
// that the sessions of one listener differ observably.  Nobody closes anything while
// the connections are made, so the pipe that B reports next is the other end of the
// connection that was just dialed.  Both ends of every connection are checked when it
// is made and (kinds that keep several pipes) again when all three are up.  For PAIR
// kinds, which hold one pipe, Ai is closed before Ai+1 dials.
//
// The sockets are made by the kind's own NewSocket (no protocol wrapper here).

type connRec struct {
	i      int
	a      *sockRec
	d      mangos.Dialer
	l      mangos.Listener
	url    string // the address that was dialed = l.Address()
	dialed string // handler mode (handler.go): the address that was dialed, where it is not l.Address()
	pa, pb *pipeRec
	tls12  bool
}

func descInput(t *tran, kd *kind) string {
	return fmt.Sprintf("desc transport=%s dialers=%s listener=%s: listener socket with 2 listeners; 3 sockets dial L1,L2,L1(max TLS1.2)", t.name, kd.name, kd.peer)
}

func (c *caseCtx) dsig(check, side string) string {
	return "C13/desc/" + check + "/" + c.t.name + "/" + side
}

// hostPort extracts host:port from a tcp/tls+tcp/ws/wss URL.
func hostPort(url string) string {
	i := strings.Index(url, "://")
	if i < 0 {
		return url
	}
	s := url[i+3:]
	if j := strings.Index(s, "/"); j >= 0 {
		s = s[:j]
	}
	return s
}

func getAddr(c *caseCtx, pr *pipeRec, side, opt string) (net.Addr, bool) {
	v, err := pr.p.GetOption(opt)
	if err != nil {
		c.vs.add("fail", c.dsig("addr-option-missing", side), "%v (%s pipe): GetOption(%q) failed: %v", pr, side, opt, err)
		return nil, false
	}
	a, ok := v.(net.Addr)
	if !ok || a == nil {
		c.vs.add("fail", c.dsig("addr-option-type", side), "%v (%s pipe): GetOption(%q) = %T %v, expected a net.Addr", pr, side, opt, v, v)
		return nil, false
	}
	return a, true
}

func getTLS(c *caseCtx, pr *pipeRec, side string) (tls.ConnectionState, bool) {
	v, err := pr.p.GetOption(mangos.OptionTLSConnState)
	if err != nil {
		c.vs.add("fail", c.dsig("tls-state-missing", side), "%v (%s pipe): GetOption(%q) failed: %v", pr, side, mangos.OptionTLSConnState, err)
		return tls.ConnectionState{}, false
	}
	cs, ok := v.(tls.ConnectionState)
	if !ok {
		c.vs.add("fail", c.dsig("tls-state-type", side), "%v (%s pipe): GetOption(%q) = %T, expected a tls.ConnectionState", pr, side, mangos.OptionTLSConnState, v)
		return tls.ConnectionState{}, false
	}
	if !cs.HandshakeComplete || cs.Version < tls.VersionTLS12 {
		c.vs.add("fail", c.dsig("tls-state-not-handshaken", side),
			"%v (%s pipe, attached, connection in use): TLS-STATE has HandshakeComplete=%v Version=%#x CipherSuite=%#x: it does not describe the established session",
			pr, side, cs.HandshakeComplete, cs.Version, cs.CipherSuite)
		return cs, false
	}
	return cs, true
}

func checkCred(c *caseCtx, pr *pipeRec, side, opt, what string, want ...int) {
	v, err := pr.p.GetOption(opt)
	if err != nil {
		c.vs.add("fail", c.dsig("peer-cred-missing", side), "%v (%s pipe): GetOption(%q) failed: %v", pr, side, opt, err)
		return
	}
	n, ok := v.(int)
	if !ok {
		c.vs.add("fail", c.dsig("peer-cred-type", side), "%v (%s pipe): GetOption(%q) = %T %v, expected an int", pr, side, opt, v, v)
		return
	}
	for _, w := range want {
		if n == w {
			return
		}
	}
	c.vs.add("fail", c.dsig("peer-cred-"+what, side), "%v (%s pipe): GetOption(%q) = %d, the peer is this process with %s %v", pr, side, opt, n, what, want)
}

// checkConn checks both ends of one connection.
func (c *caseCtx) checkConn(cn *connRec, when string) {
	t := c.t
	pa, pb := cn.pa, cn.pb

	// 1. where the pipes come from
	dialed := cn.url
	if cn.dialed != "" {
		dialed = cn.dialed
	}
	if got := pa.p.Address(); got != dialed || cn.d.Address() != dialed {
		c.vs.add("fail", c.dsig("address", "dialed"), "%v (%s): Address() = %q, Dialer.Address() = %q, the dialed address is %q", pa, when, got, cn.d.Address(), dialed)
	}
	if got := pb.p.Address(); got != cn.l.Address() {
		c.vs.add("fail", c.dsig("address", "accepted"), "%v (%s): Address() = %q, the listener that accepted it has Address() %q", pb, when, got, cn.l.Address())
	}
	if pa.p.Dialer() != cn.d || pa.p.Listener() != nil {
		c.vs.add("fail", c.dsig("endpoint-object", "dialed"), "%v (%s): Dialer() is the dialer that was used: %v, Listener() = %v (expected nil)", pa, when, pa.p.Dialer() == cn.d, pa.p.Listener())
	}
	if pb.p.Listener() != cn.l || pb.p.Dialer() != nil {
		other := ""
		if l := pb.p.Listener(); l != nil && l != cn.l {
			other = fmt.Sprintf(" (it is the listener at %s)", l.Address())
		}
		c.vs.add("fail", c.dsig("endpoint-object", "accepted"), "%v (%s): Listener() is the listener that was dialed (%s): %v%s, Dialer() = %v (expected nil)", pb, when, cn.url, pb.p.Listener() == cn.l, other, pb.p.Dialer())
	}
	if t.tcp && strings.HasSuffix(hostPort(cn.url), ":0") {
		c.vs.add("fail", c.dsig("listener-address-port", "accepted"), "Listener.Address() = %q after Listen on port 0: not the port assigned by the system", cn.url)
	}

	// 2. local and remote address
	la, ok1 := getAddr(c, pa, "dialed", mangos.OptionLocalAddr)
	ra, ok2 := getAddr(c, pa, "dialed", mangos.OptionRemoteAddr)
	lb, ok3 := getAddr(c, pb, "accepted", mangos.OptionLocalAddr)
	rb, ok4 := getAddr(c, pb, "accepted", mangos.OptionRemoteAddr)
	if ok1 && ok2 && ok3 && ok4 {
		all := fmt.Sprintf("dialed pipe local=%q remote=%q, accepted pipe local=%q remote=%q, address %q", la, ra, lb, rb, dialed)
		switch {
		case t.tcp:
			hp := hostPort(dialed)
			if ra.String() != hp {
				c.vs.add("fail", c.dsig("remote-addr", "dialed"), "%v (%s): REMOTE-ADDR is not the listener's host:port: %s", pa, when, all)
			}
			if lb.String() != hp {
				c.vs.add("fail", c.dsig("local-addr", "accepted"), "%v (%s): LOCAL-ADDR is not the listener's host:port: %s", pb, when, all)
			}
			if la.String() != rb.String() {
				c.vs.add("fail", c.dsig("addr-cross-match", "dialed-local"), "%v / %v (%s): the dialed pipe's LOCAL-ADDR differs from the accepted pipe's REMOTE-ADDR: %s", pa, pb, when, all)
			}
			if ra.String() != lb.String() {
				c.vs.add("fail", c.dsig("addr-cross-match", "dialed-remote"), "%v / %v (%s): the dialed pipe's REMOTE-ADDR differs from the accepted pipe's LOCAL-ADDR: %s", pa, pb, when, all)
			}
		case t.scheme == "ipc":
			path := strings.TrimPrefix(cn.url, "ipc://")
			if ra.String() != path {
				c.vs.add("fail", c.dsig("remote-addr", "dialed"), "%v (%s): REMOTE-ADDR is not the socket path: %s", pa, when, all)
			}
			if lb.String() != path {
				c.vs.add("fail", c.dsig("local-addr", "accepted"), "%v (%s): LOCAL-ADDR is not the socket path: %s", pb, when, all)
			}
			if la.String() != rb.String() {
				c.vs.add("fail", c.dsig("addr-cross-match", "dialed-local"), "%v / %v (%s): the dialed pipe's LOCAL-ADDR differs from the accepted pipe's REMOTE-ADDR: %s", pa, pb, when, all)
			}
		default: // inproc
			name := strings.TrimPrefix(cn.url, "inproc://")
			for _, x := range []struct {
				a    net.Addr
				side string
				pr   *pipeRec
			}{{la, "dialed", pa}, {ra, "dialed", pa}, {lb, "accepted", pb}, {rb, "accepted", pb}} {
				if s := x.a.String(); s != name && s != cn.url {
					c.vs.add("fail", c.dsig("inproc-addr", x.side), "%v (%s): an address option is neither %q nor %q: %s", x.pr, when, name, cn.url, all)
				}
			}
		}
	}

	// 3. TLS session
	if t.tls {
		ca, oka := getTLS(c, pa, "dialed")
		cb, okb := getTLS(c, pb, "accepted")
		if oka {
			want := serverCertDER()
			if len(ca.PeerCertificates) == 0 || want == nil || !bytes.Equal(ca.PeerCertificates[0].Raw, want) {
				c.vs.add("fail", c.dsig("tls-state-server-cert", "dialed"), "%v (%s): TLS-STATE has %d peer certificates; the first one is not the certificate of the listener", pa, when, len(ca.PeerCertificates))
			}
			if cn.tls12 && ca.Version != tls.VersionTLS12 {
				c.vs.add("fail", c.dsig("tls-state-other-connection", "dialed"), "%v (%s): this connection was dialed with MaxVersion TLS 1.2, TLS-STATE has version %#x", pa, when, ca.Version)
			}
		}
		if okb && cn.tls12 && cb.Version != tls.VersionTLS12 {
			c.vs.add("fail", c.dsig("tls-state-other-connection", "accepted"), "%v (%s): the peer of this connection offered at most TLS 1.2, TLS-STATE has version %#x (the state of another connection of the listener?)", pb, when, cb.Version)
		}
		if oka && okb {
			if ca.Version != cb.Version || ca.CipherSuite != cb.CipherSuite {
				c.vs.add("fail", c.dsig("tls-state-other-connection", "accepted"), "%v / %v (%s): the two ends of one connection report different sessions: dialed version=%#x suite=%#x, accepted version=%#x suite=%#x", pa, pb, when, ca.Version, ca.CipherSuite, cb.Version, cb.CipherSuite)
			} else {
				ka, ea := ca.ExportKeyingMaterial("EXPERIMENTAL c13", nil, 32)
				kb, eb := cb.ExportKeyingMaterial("EXPERIMENTAL c13", nil, 32)
				if ea == nil && eb == nil {
					c.st.Count("tls-keying-material-compared")
					if !bytes.Equal(ka, kb) {
						c.vs.add("fail", c.dsig("tls-state-other-connection", "accepted"), "%v / %v (%s): the keying material exported from the two TLS-STATE values differs: they are not the two ends of one session", pa, pb, when)
					}
				}
			}
		}
	} else {
		for _, x := range []struct {
			pr   *pipeRec
			side string
		}{{pa, "dialed"}, {pb, "accepted"}} {
			if v, err := x.pr.p.GetOption(mangos.OptionTLSConnState); err == nil {
				c.vs.add("fail", c.dsig("tls-state-on-plain-transport", x.side), "%v (%s): GetOption(%q) = %T on a transport without TLS", x.pr, when, mangos.OptionTLSConnState, v)
			}
		}
	}

	// 4. peer credentials
	if t.scheme == "ipc" && runtime.GOOS == "linux" {
		for _, x := range []struct {
			pr   *pipeRec
			side string
		}{{pa, "dialed"}, {pb, "accepted"}} {
			checkCred(c, x.pr, x.side, mangos.OptionPeerPID, "pid", os.Getpid())
			checkCred(c, x.pr, x.side, mangos.OptionPeerUID, "uid", os.Geteuid(), os.Getuid())
			checkCred(c, x.pr, x.side, mangos.OptionPeerGID, "gid", os.Getegid(), os.Getgid())
		}
		c.st.Count("peer-credentials-checked")
	}

	// 5. unknown option names
	for _, x := range []struct {
		pr   *pipeRec
		side string
	}{{pa, "dialed"}, {pb, "accepted"}} {
		v, err := x.pr.p.GetOption(unknownName)
		if err != mangos.ErrBadOption && err != mangos.ErrBadProperty {
			c.vs.add("fail", c.dsig("unknown-option", x.side), "%v (%s): GetOption(%q) = %v, %v; expected ErrBadOption or ErrBadProperty", x.pr, when, unknownName, v, err)
		}
	}

	// 6. ids
	if pa.id == pb.id {
		c.vs.add("fail", c.dsig("id-shared", "both"), "%v and %v are both live and have the same id", pa, pb)
	}
}

func descCase(st *ekit.Stats, t *tran, kd *kind) []viol {
	c := &caseCtx{t: t, fam: "desc", st: st}
	kl := kindByName(kd.peer)
	b, err := c.newSock("B", kl, false)
	if err != nil {
		c.setupError("new socket", err)
		return nil
	}
	var as []*sockRec
	closeAll := func() {
		for _, a := range as {
			a := a
			guarded(func() { _ = a.sock.Close() })
		}
		guarded(func() { _ = b.sock.Close() })
	}
	lo, err := t.listenOpts()
	if err != nil {
		c.setupError("tls config", err)
		closeAll()
		return nil
	}
	var ls [2]mangos.Listener
	for i := range ls {
		l, err := b.sock.NewListener(t.listenAddr(), lo)
		if err == nil {
			err = l.Listen()
		}
		if err != nil {
			c.setupError("listen", err)
			closeAll()
			return nil
		}
		ls[i] = l
		b.mu.Lock()
		b.listeners[l] = l.Address()
		b.mu.Unlock()
	}
	if ls[0].Address() == ls[1].Address() {
		c.vs.add("fail", c.dsig("listener-address-port", "accepted"), "two listeners on distinct endpoints both report Address() %q", ls[0].Address())
	}

	var conns []*connRec
	matched := map[*pipeRec]bool{}
	ok := true
	for i := 0; i < 3 && ok; i++ {
		a, err := c.newSock(fmt.Sprintf("A%d", i), kd, false)
		if err != nil {
			c.setupError("new socket", err)
			ok = false
			break
		}
		as = append(as, a)
		l := ls[i%2]
		cn := &connRec{i: i, a: a, l: l, url: l.Address(), tls12: t.tls && i == 2}
		do, err := t.dialOpts(cn.tls12, false)
		if err != nil {
			c.setupError("tls config", err)
			ok = false
			break
		}
		d, err := a.sock.NewDialer(cn.url, do)
		if err != nil {
			c.setupError("new dialer", err)
			ok = false
			break
		}
		cn.d = d
		a.mu.Lock()
		a.dialers[d] = &dialRec{d: d, addr: cn.url}
		a.mu.Unlock()
		var derr error
		if !guarded(func() { derr = d.Dial() }) {
			c.vs.add("hang", c.dsig("dial-hang", "dialed"), "Dial(%s) did not return within %v", cn.url, watchdog)
			ok = false
			break
		}
		if derr != nil {
			c.vs.add("fail", c.dsig("dial-failed", "dialed"), "Dial(%s) to a listening socket failed: %v", cn.url, derr)
			ok = false
			break
		}
		// both ends attached
		find := func() bool {
			cn.pa, cn.pb = nil, nil
			for _, pr := range a.recs() {
				a.mu.Lock()
				if pr.nAttached > 0 {
					cn.pa = pr
				}
				a.mu.Unlock()
			}
			for _, pr := range b.recs() {
				b.mu.Lock()
				if pr.nAttached > 0 && !matched[pr] {
					cn.pb = pr
				}
				b.mu.Unlock()
			}
			return cn.pa != nil && cn.pb != nil
		}
		if !eventually(find) {
			c.vs.add("hang", c.dsig("not-attached", "both"), "connection %d (%s): no attached pipe on both sockets within %v; %s; %s", i, cn.url, watchdog, a.history(), b.history())
			ok = false
			break
		}
		matched[cn.pb] = true
		conns = append(conns, cn)
		c.checkConn(cn, fmt.Sprintf("connection %d of 3, just attached", i))
		st.Count("connection-checked")

		if kd.pairLike && i < 2 {
			// one pipe at a time: retire this connection before the next one
			guarded(func() { _ = a.sock.Close() })
			if !eventually(func() bool { return b.liveAttached() == 0 }) {
				st.Count("pair-listener-did-not-notice-peer-close")
				ok = false
				break
			}
		}
	}
	if ok && !kd.pairLike {
		for _, cn := range conns {
			c.checkConn(cn, fmt.Sprintf("connection %d of 3, all three attached", cn.i))
		}
		// the three pipes of B are three different pipes with three different ids
		seen := map[uint32]*pipeRec{}
		for _, cn := range conns {
			for _, pr := range []*pipeRec{cn.pa, cn.pb} {
				if o := seen[pr.id]; o != nil && o != pr {
					c.vs.add("fail", c.dsig("id-shared", "both"), "%v and %v are both live and have the same id", o, pr)
				}
				seen[pr.id] = pr
			}
		}
		st.Count("three-concurrent-connections-checked")
	}
	closeAll()
	c.quiesce()
	for _, r := range c.socks {
		r.finalChecks()
	}
	for _, r := range c.socks {
		r.idsReleased()
	}
	if ok {
		st.Nontrivial(t.name + "/" + kd.name)
	}
	vs := c.vs.list()
	if len(vs) == 0 && len(conns) > 0 {
		cn := conns[len(conns)-1]
		lv, _ := cn.pa.p.GetOption(mangos.OptionLocalAddr)
		rv, _ := cn.pa.p.GetOption(mangos.OptionRemoteAddr)
		st.Sample(map[string]string{"case": descInput(t, kd), "url": cn.url, "dialed-pipe": fmt.Sprintf("local=%v remote=%v id=%#x", lv, rv, cn.pa.id)})
	}
	return vs
}

// descKinds: the dialing kinds (the listening socket is the natural peer).
func descKinds(tier string) []*kind { return tierKinds(tier) }

func descScenario(st *ekit.Stats, tier string) {
	defer quietLog()()
	var jobs []job
	for _, kd := range descKinds(tier) {
		for _, t := range trans {
			kd, t := kd, t
			jobs = append(jobs, job{
				input: descInput(t, kd),
				ops:   3,
				run:   func() []viol { return descCase(st, t, kd) },
			})
		}
	}
	runPool(st, workers(16), jobs)
}

func init() {
	ekit.Register("C13", ekit.Scenario{Name: "C13/descriptions", Run: descScenario})
}
