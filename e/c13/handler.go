package c13

import (
	"crypto/tls"
	"fmt"
	"net"
	"net/http"
	"sort"
	"sync"
	"sync/atomic"
	"time"

	"go.nanomsg.org/mangos/v3"
	"go.nanomsg.org/mangos/v3/protocol/pull"
	"go.nanomsg.org/mangos/v3/protocol/push"
	"go.nanomsg.org/mangos/v3/transport/ws"
	"go.nanomsg.org/mangos/v3/ve/ekit"
)

// WebSocket listeners served by the APPLICATION's HTTP server.
//
// A ws:// or wss:// listener need not run a server of its own: the application takes the
// listener's handler (GetOption(OptionWebSocketHandler); the listener then never opens a port) or
// its mux (GetOption(OptionWebSocketMux); the listener's own server runs as well, on an OS assigned
// port that nobody dials here) and mounts it on an http.Server it runs itself - over plain TCP or
// over TLS, whatever the scheme of the address the listener was created with says.  What the
// pipes report must describe the connection that was actually made:
//
//	C13/descriptions-handler-mode   listener scheme (ws, wss) x application server (http, https)
//	    x mount (handler, mux) x kind of the dialing sockets: three connections through the
//	    application's server, both ends of each checked exactly as in C13/descriptions
//	    (endpoint objects, addresses, cross-match of local/remote address, ids); the TLS state is
//	    present on BOTH ends iff the application's server speaks TLS, names the server's
//	    certificate, and the two ends report one session (version, suite, exported keying
//	    material; the third connection offers at most TLS 1.2).
//
//	C13/pending-before-listen       handler mounted and served, n = 1..3 peers connect (and are
//	    attached on their side) BEFORE the application calls Listen() on the mangos listener,
//	    then Listen(): every one of those connections gets exactly one pipe on the listening
//	    socket (Attaching once, Attached once), the remote addresses of those pipes are exactly the
//	    local addresses of the peers' pipes, and a message sent by every peer arrives.

type hmode struct {
	lscheme string // scheme of the address the mangos listener is created with
	appTLS  bool   // the application's server speaks TLS
	mount   string // "handler" or "mux"
}

func (m hmode) name() string {
	s := "http"
	if m.appTLS {
		s = "https"
	}
	return m.lscheme + "-" + m.mount + "-on-" + s
}

// tran: what checkConn needs to know about the connections of this mode.
func (m hmode) tran() *tran {
	return &tran{name: m.name(), scheme: m.lscheme, tls: m.appTLS, tcp: true}
}

const handlerPath = "/c13h"

// app is the application's own server.
type app struct {
	srv     *http.Server
	dialURL string // what peers dial: ws:// or wss:// according to the server, its host:port
}

func (a *app) close() {
	if a != nil && a.srv != nil {
		_ = a.srv.Close()
	}
}

// mountOn creates a listener on sock and mounts it on a fresh application server, which is
// serving when mountOn returns.  Listen() has NOT been called on the listener.
func (m hmode) mountOn(sock mangos.Socket) (mangos.Listener, *app, error) {
	ln, err := net.Listen("tcp", "127.0.0.1:0")
	if err != nil {
		return nil, nil, err
	}
	hp := ln.Addr().String()
	var lo map[string]interface{}
	srvTLS, _, _, err := tlsConfigs()
	if err != nil {
		_ = ln.Close()
		return nil, nil, err
	}
	if m.lscheme == "wss" {
		lo = map[string]interface{}{mangos.OptionTLSConfig: srvTLS}
	}
	addr := m.lscheme + "://" + hp + handlerPath
	if m.mount == "mux" {
		addr = m.lscheme + "://127.0.0.1:0" + handlerPath
	}
	l, err := sock.NewListener(addr, lo)
	if err != nil {
		_ = ln.Close()
		return nil, nil, fmt.Errorf("NewListener(%s): %v", addr, err)
	}
	var h http.Handler
	if m.mount == "mux" {
		v, err := l.GetOption(ws.OptionWebSocketMux)
		if err != nil {
			_ = ln.Close()
			return nil, nil, fmt.Errorf("GetOption(OptionWebSocketMux): %v", err)
		}
		h = v.(*http.ServeMux)
	} else {
		v, err := l.GetOption(ws.OptionWebSocketHandler)
		if err != nil {
			_ = ln.Close()
			return nil, nil, fmt.Errorf("GetOption(OptionWebSocketHandler): %v", err)
		}
		mux := http.NewServeMux()
		mux.Handle(handlerPath, v.(http.Handler))
		h = mux
	}
	a := &app{dialURL: "ws://" + hp + handlerPath}
	if m.appTLS {
		ln = tls.NewListener(ln, srvTLS)
		a.dialURL = "wss://" + hp + handlerPath
	}
	a.srv = &http.Server{Handler: h}
	go func() { _ = a.srv.Serve(ln) }()
	return l, a, nil
}

func handlerInput(m hmode, kd *kind) string {
	return fmt.Sprintf("desc-handler listener=%s mounted-as=%s application-server-tls=%v dialers=%s listener-kind=%s: 3 sockets dial the application's server (the third offers at most TLS 1.2)", m.lscheme, m.mount, m.appTLS, kd.name, kd.peer)
}

func handlerDescCase(st *ekit.Stats, m hmode, kd *kind) []viol {
	t := m.tran()
	c := &caseCtx{t: t, fam: "desc", st: st}
	kl := kindByName(kd.peer)
	b, err := c.newSock("B", kl, false)
	if err != nil {
		c.setupError("new socket", err)
		return nil
	}
	var as []*sockRec
	var ap *app
	closeAll := func() {
		for _, a := range as {
			a := a
			guarded(func() { _ = a.sock.Close() })
		}
		guarded(func() { _ = b.sock.Close() })
		ap.close()
	}
	l, ap2, err := m.mountOn(b.sock)
	ap = ap2
	if err != nil {
		c.setupError("mount", err)
		closeAll()
		return nil
	}
	if err := l.Listen(); err != nil {
		c.setupError("listen", err)
		closeAll()
		return nil
	}
	b.mu.Lock()
	b.listeners[l] = l.Address()
	b.mu.Unlock()

	var conns []*connRec
	matched := map[*pipeRec]bool{}
	ok := true
	for i := 0; i < 3 && ok; i++ {
		a, err := c.newSock(fmt.Sprintf("A%d", i), kd, false)
		if err != nil {
			c.setupError("new socket", err)
			ok = false
			break
		}
		as = append(as, a)
		cn := &connRec{i: i, a: a, l: l, url: l.Address(), dialed: ap.dialURL, tls12: t.tls && i == 2}
		do, err := t.dialOpts(cn.tls12, false)
		if err != nil {
			c.setupError("tls config", err)
			ok = false
			break
		}
		d, err := a.sock.NewDialer(cn.dialed, do)
		if err != nil {
			c.setupError("new dialer", err)
			ok = false
			break
		}
		cn.d = d
		a.mu.Lock()
		a.dialers[d] = &dialRec{d: d, addr: cn.dialed}
		a.mu.Unlock()
		var derr error
		if !guarded(func() { derr = d.Dial() }) {
			c.vs.add("hang", c.dsig("dial-hang", "dialed"), "Dial(%s) did not return within %v", cn.dialed, watchdog)
			ok = false
			break
		}
		if derr != nil {
			c.vs.add("fail", c.dsig("dial-failed", "dialed"), "Dial(%s) to the application's server, on which the listener %s is mounted, failed: %v", cn.dialed, cn.url, derr)
			ok = false
			break
		}
		find := func() bool {
			cn.pa, cn.pb = nil, nil
			for _, pr := range a.recs() {
				a.mu.Lock()
				if pr.nAttached > 0 {
					cn.pa = pr
				}
				a.mu.Unlock()
			}
			for _, pr := range b.recs() {
				b.mu.Lock()
				if pr.nAttached > 0 && !matched[pr] {
					cn.pb = pr
				}
				b.mu.Unlock()
			}
			return cn.pa != nil && cn.pb != nil
		}
		if !eventually(find) {
			c.vs.add("hang", c.dsig("not-attached", "both"), "connection %d (%s): no attached pipe on both sockets within %v; %s; %s", i, cn.dialed, watchdog, a.history(), b.history())
			ok = false
			break
		}
		matched[cn.pb] = true
		conns = append(conns, cn)
		c.checkConn(cn, fmt.Sprintf("connection %d of 3, just attached", i))
		st.Count("connection-checked")
		if t.tls {
			st.Count("connection-over-tls-checked")
		} else {
			st.Count("plain-connection-checked")
		}
		if kd.pairLike && i < 2 {
			guarded(func() { _ = a.sock.Close() })
			if !eventually(func() bool { return b.liveAttached() == 0 }) {
				st.Count("pair-listener-did-not-notice-peer-close")
				ok = false
				break
			}
		}
	}
	if ok && !kd.pairLike {
		for _, cn := range conns {
			c.checkConn(cn, fmt.Sprintf("connection %d of 3, all three attached", cn.i))
		}
		st.Count("three-concurrent-connections-checked")
	}
	closeAll()
	c.quiesce()
	for _, r := range c.socks {
		r.finalChecks()
	}
	for _, r := range c.socks {
		r.idsReleased()
	}
	if ok {
		st.Nontrivial(t.name + "/" + kd.name)
	}
	vs := c.vs.list()
	if len(vs) == 0 && len(conns) > 0 {
		cn := conns[len(conns)-1]
		_, terr := cn.pb.p.GetOption(mangos.OptionTLSConnState)
		st.Sample(map[string]string{"case": handlerInput(m, kd), "listener": cn.url, "dialed": cn.dialed, "accepted-pipe-has-tls-state": fmt.Sprint(terr == nil)})
	}
	return vs
}

func handlerModes(mounts ...string) []hmode {
	var out []hmode
	for _, ls := range []string{"ws", "wss"} {
		for _, at := range []bool{false, true} {
			for _, mt := range mounts {
				out = append(out, hmode{ls, at, mt})
			}
		}
	}
	return out
}

func handlerDescScenario(st *ekit.Stats, tier string) {
	defer quietLog()()
	var jobs []job
	for _, kd := range descKinds(tier) {
		for _, m := range handlerModes("handler", "mux") {
			kd, m := kd, m
			jobs = append(jobs, job{
				input: handlerInput(m, kd),
				ops:   3,
				run:   func() []viol { return handlerDescCase(st, m, kd) },
			})
		}
	}
	runPool(st, workers(16), jobs)
}

// ---------------------------------------------------------------------------------
// connections made before Listen()

func runBeforeListen(st *ekit.Stats, tier string) {
	defer quietLog()()
	// the cases are independent of each other (sockets, servers and ports of their own) and a
	// failing one sits out the watchdog: they run side by side
	var wg sync.WaitGroup
	for _, m := range handlerModes("handler") {
		for n := 1; n <= 3; n++ {
			m, n := m, n
			wg.Add(1)
			go func() {
				defer wg.Done()
				beforeListenConfirmed(st, m, n)
			}()
		}
	}
	wg.Wait()
}

func beforeListenConfirmed(st *ekit.Stats, m hmode, n int) {
	in := fmt.Sprintf("listener=%s handler mounted on the application's server (tls=%v), %d peer(s) connect before Listen()", m.lscheme, m.appTLS, n)
	var fails map[string]string
	for rep := 0; rep < 3; rep++ {
		f := beforeListenCase(m, n)
		if rep == 0 {
			fails = f
		} else {
			for k := range fails {
				if _, ok := f[k]; !ok {
					delete(fails, k)
				}
			}
		}
		if len(fails) == 0 {
			break
		}
	}
	st.Case(3*n + 5)
	if msg, bad := fails["C13/before-listen/setup"]; bad {
		st.Count("setup-error")
		st.Cap("setup error: " + msg)
		return
	}
	st.Nontrivial(in)
	for sig, msg := range fails {
		st.Fail(sig, "fail", in, "%s (3/3 runs)", msg)
	}
	if len(fails) == 0 {
		for i := 0; i < n; i++ {
			st.Count("connection-made-before-listen-attached-and-used")
		}
		st.Sample(map[string]string{"case": in})
	}
}

func beforeListenCase(m hmode, n int) map[string]string {
	setup := func(format string, a ...interface{}) map[string]string {
		return map[string]string{"C13/before-listen/setup": fmt.Sprintf(format, a...)}
	}
	name := m.name()
	fails := map[string]string{}
	srv, err := pull.NewSocket()
	if err != nil {
		return setup("%v", err)
	}
	defer srv.Close()
	_ = srv.SetOption(mangos.OptionRecvDeadline, watchdog)
	var mu sync.Mutex
	attaching := map[mangos.Pipe]int{}
	attached := map[mangos.Pipe]int{}
	var remotes []string
	wrongOrigin := ""
	var lst mangos.Listener
	srv.SetPipeEventHook(func(ev mangos.PipeEvent, p mangos.Pipe) {
		mu.Lock()
		defer mu.Unlock()
		switch ev {
		case mangos.PipeEventAttaching:
			attaching[p]++
			if p.Listener() != lst || p.Dialer() != nil || (lst != nil && p.Address() != lst.Address()) {
				wrongOrigin = fmt.Sprintf("pipe %08x: Listener() is the listener: %v, Dialer() = %v, Address() = %q", p.ID(), p.Listener() == lst, p.Dialer(), p.Address())
			}
		case mangos.PipeEventAttached:
			attached[p]++
			remotes = append(remotes, addrOf(p, mangos.OptionRemoteAddr))
		}
	})
	l, ap, err := m.mountOn(srv)
	if err != nil {
		return setup("%v", err)
	}
	defer ap.close()
	mu.Lock()
	lst = l
	mu.Unlock()

	var cmu sync.Mutex
	var locals []string
	var clientUp int32
	var clients []mangos.Socket
	defer func() {
		for _, c := range clients {
			_ = c.Close()
		}
	}()
	t := m.tran()
	for i := 0; i < n; i++ {
		c, err := push.NewSocket()
		if err != nil {
			return setup("%v", err)
		}
		clients = append(clients, c)
		_ = c.SetOption(mangos.OptionSendDeadline, watchdog)
		c.SetPipeEventHook(func(ev mangos.PipeEvent, p mangos.Pipe) {
			if ev == mangos.PipeEventAttached {
				cmu.Lock()
				locals = append(locals, addrOf(p, mangos.OptionLocalAddr))
				cmu.Unlock()
				atomic.AddInt32(&clientUp, 1)
			}
		})
		do, err := t.dialOpts(false, false)
		if err != nil {
			return setup("%v", err)
		}
		d, err := c.NewDialer(ap.dialURL, do)
		if err != nil {
			return setup("NewDialer: %v", err)
		}
		var derr error
		if !guarded(func() { derr = d.Dial() }) {
			return setup("Dial(%s) before Listen did not return within %v", ap.dialURL, watchdog)
		}
		if derr != nil {
			// the handler is mounted and served; whether a peer is admitted before Listen() is
			// the listener's choice - but then it must say so to the peer
			return setup("Dial(%s) before Listen(): %v", ap.dialURL, derr)
		}
	}
	if !eventually(func() bool { return atomic.LoadInt32(&clientUp) == int32(n) }) {
		return setup("only %d of %d peers were attached on their own side before Listen()", atomic.LoadInt32(&clientUp), n)
	}
	mu.Lock()
	early := len(attaching)
	mu.Unlock()
	if early != 0 {
		fails["C13/before-listen/pipe-before-listen/"+name] = fmt.Sprintf("%d pipe(s) were reported on the listening socket before Listen() was called", early)
	}
	var lerr error
	if !guarded(func() { lerr = l.Listen() }) {
		fails["C13/before-listen/listen-hang/"+name] = fmt.Sprintf("Listen() did not return within %v", watchdog)
		return fails
	}
	if lerr != nil {
		fails["C13/before-listen/listen-failed/"+name] = fmt.Sprintf("Listen() on the listener whose handler is mounted: %v", lerr)
		return fails
	}
	ok := eventually(func() bool {
		mu.Lock()
		defer mu.Unlock()
		return len(attached) >= n
	})
	time.Sleep(50 * time.Millisecond)
	mu.Lock()
	nAttached, nAttaching := len(attached), len(attaching)
	for p, k := range attaching {
		if k != 1 || attached[p] > 1 {
			fails["C13/before-listen/events-repeated/"+name] = fmt.Sprintf("pipe %08x: Attaching %d times, Attached %d times", p.ID(), k, attached[p])
		}
	}
	if wrongOrigin != "" {
		fails["C13/before-listen/origin/"+name] = wrongOrigin
	}
	a := append([]string{}, remotes...)
	mu.Unlock()
	if !ok || nAttached != n {
		fails["C13/before-listen/connection-forgotten/"+name] = fmt.Sprintf("%d peer(s) connected through the application's server before Listen() and report the connection as attached; %v after Listen() the listening socket has %d attached pipe(s) (%d got Attaching)", n, watchdog, nAttached, nAttaching)
		return fails
	}
	cmu.Lock()
	b := append([]string{}, locals...)
	cmu.Unlock()
	sort.Strings(a)
	sort.Strings(b)
	if fmt.Sprint(a) != fmt.Sprint(b) {
		fails["C13/before-listen/addresses-differ/"+name] = fmt.Sprintf("remote addresses of the listener's pipes %v are not the local addresses of the peers' pipes %v", a, b)
	}
	// every connection carries a message
	for i, c := range clients {
		var serr error
		body := []byte(fmt.Sprintf("peer-%d", i))
		if !guarded(func() { serr = c.Send(body) }) || serr != nil {
			fails["C13/before-listen/send/"+name] = fmt.Sprintf("peer %d: Send on the connection made before Listen(): %v", i, serr)
			return fails
		}
	}
	got := map[string]int{}
	for range clients {
		var body []byte
		var rerr error
		if !guarded(func() { body, rerr = srv.Recv() }) || rerr != nil {
			fails["C13/before-listen/message-lost/"+name] = fmt.Sprintf("%d peers sent one message each on connections made before Listen(); the listening socket received %d, then: %v", n, len(got), rerr)
			return fails
		}
		got[string(body)]++
	}
	for i := range clients {
		if got[fmt.Sprintf("peer-%d", i)] != 1 {
			fails["C13/before-listen/message-lost/"+name] = fmt.Sprintf("messages received %v, expected one from each of %d peers", got, n)
		}
	}
	return fails
}

func init() {
	ekit.Register("C13", ekit.Scenario{Name: "C13/descriptions-handler-mode", Run: handlerDescScenario})
	ekit.Register("C13", ekit.Scenario{Name: "C13/pending-before-listen", Run: runBeforeListen})
}
