package c13

import (
	"fmt"
	"strings"
	"time"

	"go.nanomsg.org/mangos/v3"
	"go.nanomsg.org/mangos/v3/ve/ekit"
)

// Lifecycle over real connections.
//
// A case is (transport, kind of the socket under test, what it does: listen or dial,
// operation list).  The operations, one letter each:
//
//	C  peer connects.  listen: a fresh peer socket dials the listener of the socket
//	   under test.  dial: a fresh peer socket listens and the socket under test gets a
//	   new dialer for it.  Every dialer has ReconnectTime 10 ms.
//	X  the newest peer that is still open closes its socket
//	A  the application closes the newest attached pipe of the socket under test
//	h  the hook of the socket under test closes the next pipe during Attaching
//	H  the hook of the socket under test closes the next pipe during Attached
//	S  (PAIR kinds) a second peer connects while one is attached (if none is attached
//	   a first peer is connected before)
//
// and finally the socket under test is closed, then the peers.  After every
// operation the harness waits until no hook or protocol call was recorded on any socket
// of the case for 50 ms.
//
// So that refusals do not redial for ever, the hook closes a dialer after it has made
// len(ops)+3 connections ("budget"); no operation list needs more.
//
// Oracle: see hook/noteAdd/noteRemove/finalChecks/idsReleased in common.go (per pipe)
// and the liveness clauses below (listener keeps accepting, dialer keeps redialling).

type peerRec struct {
	r      *sockRec
	closed bool     // closed by operation X
	dr     *dialRec // the dialer that connects the peer with the socket under test
}

func opAlphabet(k *kind) string {
	if k.pairLike {
		return "CXAhHS"
	}
	return "CXAhH"
}

func opLists(alpha string, maxLen int) []string {
	out := []string{""}
	level := []string{""}
	for l := 1; l <= maxLen; l++ {
		var next []string
		for _, p := range level {
			for _, o := range alpha {
				next = append(next, p+string(o))
			}
		}
		out = append(out, next...)
		level = next
	}
	return out
}

var opNames = map[byte]string{'C': "connect", 'X': "peer-close", 'A': "app-close-newest", 'h': "arm-close-in-attaching", 'H': "arm-close-in-attached", 'S': "second-peer"}

func describeOps(ops string) string {
	var s []string
	for i := 0; i < len(ops); i++ {
		s = append(s, opNames[ops[i]])
	}
	return ops + " (" + strings.Join(s, ", ") + ", close)"
}

func lifeInput(t *tran, k *kind, role, ops string) string {
	return fmt.Sprintf("life transport=%s sut=%s peer=%s sut-role=%s ops=%s", t.name, k.name, k.peer, role, describeOps(ops))
}

// lifeCase runs one case and returns its violations.
func lifeCase(st *ekit.Stats, t *tran, k *kind, role, ops string) []viol {
	c := &caseCtx{t: t, fam: "life", role: role, st: st}
	budget := len(ops) + 3
	pk := kindByName(k.peer)

	sut, err := c.newSock("sut", k, true)
	if err != nil {
		c.setupError("new socket", err)
		return nil
	}
	var peers []*peerRec
	closeAll := func() {
		sut.closed = true
		guarded(func() { _ = sut.sock.Close() })
		for _, p := range peers {
			p := p
			guarded(func() { _ = p.r.sock.Close() })
		}
	}

	lo, err := t.listenOpts()
	if err != nil {
		c.setupError("tls config", err)
		closeAll()
		return nil
	}
	do, err := t.dialOpts(false, true)
	if err != nil {
		c.setupError("tls config", err)
		closeAll()
		return nil
	}

	var sutAddr string
	if role == "listen" {
		l, err := sut.sock.NewListener(t.listenAddr(), lo)
		if err != nil {
			c.setupError("new listener", err)
			closeAll()
			return nil
		}
		if err := l.Listen(); err != nil {
			c.setupError("listen", err)
			closeAll()
			return nil
		}
		sutAddr = l.Address()
		sut.mu.Lock()
		sut.listeners[l] = sutAddr
		sut.mu.Unlock()
	} else {
		sut.budget = budget
	}

	setupFailed := false
	// expected: connections that the listener of the socket under test must report
	expected := func() int {
		n := 0
		for _, p := range peers {
			a := p.r.nAttaching()
			if p.closed && a > 0 {
				a-- // the connection in progress when the peer closed may be lost
			}
			n += a
		}
		return n
	}

	connect := func() {
		name := fmt.Sprintf("peer%d", len(peers)+1)
		pr, err := c.newSock(name, pk, true)
		if err != nil {
			c.setupError("new socket", err)
			setupFailed = true
			return
		}
		p := &peerRec{r: pr}
		peers = append(peers, p)
		var d mangos.Dialer
		var dsock *sockRec
		if role == "listen" {
			pr.budget = budget
			if d, err = pr.sock.NewDialer(sutAddr, do); err != nil {
				c.setupError("new dialer", err)
				setupFailed = true
				return
			}
			p.dr = &dialRec{d: d, addr: sutAddr}
			dsock = pr
		} else {
			l, err := pr.sock.NewListener(t.listenAddr(), lo)
			if err != nil {
				c.setupError("new listener", err)
				setupFailed = true
				return
			}
			if err := l.Listen(); err != nil {
				c.setupError("listen", err)
				setupFailed = true
				return
			}
			pr.mu.Lock()
			pr.listeners[l] = l.Address()
			pr.mu.Unlock()
			if d, err = sut.sock.NewDialer(l.Address(), do); err != nil {
				c.setupError("new dialer", err)
				setupFailed = true
				return
			}
			p.dr = &dialRec{d: d, addr: l.Address(), peer: pr}
			dsock = sut
		}
		dsock.mu.Lock()
		dsock.dialers[d] = p.dr
		dsock.mu.Unlock()
		var derr error
		if !guarded(func() { derr = d.Dial() }) {
			c.vs.add("hang", c.sig("dial-hang"), "Dial to a listening socket did not return within %v; %s", watchdog, sut.history())
			return
		}
		if derr != nil {
			c.vs.add("fail", c.sig("dial-failed"), "Dial to a listening socket (%s) failed: %v; %s", p.dr.addr, derr, sut.history())
			return
		}
		if role == "listen" {
			// the listener carries on accepting: every connection a peer's dialer
			// completed is reported to the hook of the socket under test
			if !eventually(func() bool { return sut.nAttaching() >= expected() }) {
				c.vs.add("fail", c.sig("listener-stopped-accepting"),
					"the peers completed %d connections to the listener, the socket under test reported Attaching for %d within %v; %s",
					expected(), sut.nAttaching(), watchdog, sut.history())
			}
		}
	}

	softWaitAttached := func() {
		until := time.Now().Add(2 * time.Second)
		for sut.liveAttached() == 0 && time.Now().Before(until) {
			time.Sleep(pollEvery)
		}
	}

	for i := 0; i < len(ops) && !setupFailed; i++ {
		switch ops[i] {
		case 'C':
			connect()
		case 'S':
			if sut.liveAttached() == 0 {
				connect()
				if setupFailed {
					break
				}
				c.quiesce()
				softWaitAttached()
			}
			if sut.liveAttached() > 0 {
				st.Count("second-peer-while-attached")
			}
			connect()
		case 'X':
			for j := len(peers) - 1; j >= 0; j-- {
				p := peers[j]
				if p.closed {
					continue
				}
				p.closed = true
				p.r.closed = true
				if !guarded(func() { _ = p.r.sock.Close() }) {
					c.vs.add("hang", c.sig("peer-close-hang"), "Close of a peer socket did not return within %v; %s", watchdog, p.r.history())
				}
				st.Count("op-peer-close")
				break
			}
		case 'A':
			if pr := sut.newestAttached(); pr != nil {
				sut.mu.Lock()
				pr.appClosed = true
				sut.mu.Unlock()
				if !guarded(func() { _ = pr.p.Close() }) {
					c.vs.add("hang", c.sig("pipe-close-hang"), "Pipe.Close did not return within %v; %s", watchdog, sut.history())
				}
				st.Count("op-app-close")
			}
		case 'h':
			sut.mu.Lock()
			sut.armAttaching++
			sut.mu.Unlock()
		case 'H':
			sut.mu.Lock()
			sut.armAttached++
			sut.mu.Unlock()
		}
		c.quiesce()
	}
	if setupFailed {
		closeAll()
		return nil
	}

	// liveness, while everything is still open -------------------------------------
	if role == "listen" {
		if !eventually(func() bool { return sut.nAttaching() >= expected() }) {
			c.vs.add("fail", c.sig("listener-stopped-accepting"),
				"the peers completed %d connections to the listener, the socket under test reported Attaching for %d within %v; %s",
				expected(), sut.nAttaching(), watchdog, sut.history())
		}
	}
	// a dialer whose pipe was closed or refused dials again: it ends up with an
	// attached pipe, or has used up its budget of connections
	for _, p := range peers {
		if p.closed || p.dr == nil {
			continue
		}
		p := p
		ds := p.r // the socket that owns the dialer
		if role == "dial" {
			ds = sut
		}
		ok := eventually(func() bool {
			ds.mu.Lock()
			defer ds.mu.Unlock()
			if p.dr.exhausted {
				return true
			}
			for _, pr := range ds.order {
				if pr.dialer == p.dr.d && pr.nAttached > 0 && pr.nDetached == 0 {
					return true
				}
			}
			return false
		})
		if !ok {
			ds.mu.Lock()
			n := p.dr.n
			ds.mu.Unlock()
			c.vs.add("fail", c.sig("dialer-stopped-redialling"),
				"a dialer (ReconnectTime %v, %d connections made, budget %d) of %s has no attached pipe %v after its last pipe was closed or refused, although its peer is listening; %s; %s",
				reconnect, n, budget, ds.name, watchdog, ds.history(), sut.history())
		}
	}

	// every pipe that was reported Attaching on a socket that stays open is resolved: the
	// hook closed it, the protocol refused it, or it is reported Attached ("the next
	// peer still attaches")
	for _, r := range c.socks {
		if r.closed {
			continue
		}
		r := r
		recs := r.recs()
		resolved := func(pr *pipeRec) bool {
			r.mu.Lock()
			defer r.mu.Unlock()
			return pr.closedInAttaching || pr.refused || pr.nAttached > 0
		}
		eventually(func() bool {
			for _, pr := range recs {
				if !resolved(pr) {
					return false
				}
			}
			return true
		})
		for _, pr := range recs {
			if !resolved(pr) {
				c.vs.add("fail", c.sig("attaching-unresolved"), "%v was reported Attaching on an open socket; %v later it is neither closed by the hook, nor refused by the protocol, nor reported Attached; %s", pr, watchdog, r.history())
			}
		}
	}

	// vacuity counters ----------------------------------------------------------------
	nontrivial := false
	for _, pr := range sut.recs() {
		sut.mu.Lock()
		if pr.nAttached > 0 {
			nontrivial = true
		}
		if pr.refused {
			st.Count("sut-pipe-refused-by-protocol")
		}
		if pr.closedInAttaching {
			st.Count("sut-pipe-closed-in-attaching")
		}
		if pr.closedInAttached {
			st.Count("sut-pipe-closed-in-attached")
		}
		sut.mu.Unlock()
	}
	for _, p := range peers {
		if p.dr != nil && p.dr.n > 1 {
			st.Count("dialer-reconnected")
		}
		if p.dr != nil && p.dr.exhausted {
			st.Count("dialer-budget-used-up")
		}
	}

	// close -----------------------------------------------------------------------------
	sut.closed = true
	if !guarded(func() { _ = sut.sock.Close() }) {
		c.vs.add("hang", c.sig("close-hang"), "Close of the socket under test did not return within %v; %s", watchdog, sut.history())
	}
	c.quiesce()
	for _, p := range peers {
		if p.closed {
			continue
		}
		p := p
		p.r.closed = true
		if !guarded(func() { _ = p.r.sock.Close() }) {
			c.vs.add("hang", c.sig("peer-close-hang"), "Close of a peer socket did not return within %v; %s", watchdog, p.r.history())
		}
	}
	c.quiesce()
	for _, r := range c.socks {
		r.finalChecks()
	}
	for _, r := range c.socks {
		r.idsReleased()
	}
	if nontrivial {
		st.Nontrivial(t.name + "/" + k.name + "/" + role + "/" + ops)
	}
	vs := c.vs.list()
	if len(vs) == 0 && len(ops) >= 2 {
		st.Sample(map[string]string{"case": lifeInput(t, k, role, ops), "sut": sut.history()})
	}
	return vs
}

func lifeScenario(role string) func(st *ekit.Stats, tier string) {
	return func(st *ekit.Stats, tier string) {
		defer quietLog()()
		maxLen, nw := 3, 160
		if tier == "thorough" {
			maxLen, nw = 4, 384
		}
		var jobs []job
		// longest lists first: the pool drains evenly
		type cs struct {
			t   *tran
			k   *kind
			ops string
		}
		var all []cs
		for _, k := range tierKinds(tier) {
			for _, ops := range opLists(opAlphabet(k), maxLen) {
				for _, t := range trans {
					all = append(all, cs{t, k, ops})
				}
			}
		}
		for l := maxLen; l >= 0; l-- {
			for _, x := range all {
				if len(x.ops) != l {
					continue
				}
				x := x
				jobs = append(jobs, job{
					input: lifeInput(x.t, x.k, role, x.ops),
					ops:   len(x.ops) + 1,
					run:   func() []viol { return lifeCase(st, x.t, x.k, role, x.ops) },
				})
			}
		}
		runPool(st, workers(nw), jobs)
	}
}

func init() {
	ekit.Register("C13", ekit.Scenario{Name: "C13/lifecycle-listen", Run: lifeScenario("listen")})
	ekit.Register("C13", ekit.Scenario{Name: "C13/lifecycle-dial", Run: lifeScenario("dial")})
}
