// Command ve is the engine E driver.
package main

import (
	"go.nanomsg.org/mangos/v3/ve/ekit"
)

func main() { ekit.Main() }
