package main

import _ "go.nanomsg.org/mangos/v3/ve/c14"
