// Package c14 is the engine E harness of property C14 on the REAL transports:
//
//	"A started dialer re-establishes its connection after the peer goes away, for as long as
//	it is open; traffic resumes on the new connection without application action."
//
// The redial logic itself (timers, back-off, options changed meanwhile) is decided under the
// controlled scheduler of engine S on mock transports.  What S cannot see is what the real
// transports report when a real connection ends - a TLS connection that was reset cannot send its
// close_notify, a write on a dead socket fails, ... - and whether the dialer is still told.
//
// Scenario "redial-after-real-loss": a case is
//
//	transport (inproc, ipc, tcp, tls+tcp, ws, wss)
//	x the way the peer ends the established connection
//	    clean    orderly close (TLS: close_notify first)
//	    reset    TCP reset: SetLinger(0) + Close on the raw connection (tcp family only)
//	    killed   the peer vanishes with unread data while the dialer keeps sending: the
//	             connection is closed without reading what was sent (the kernel answers with a
//	             reset / EPIPE), writes of the dialer fail
//
// The first peer is a raw, hand-written endpoint of the harness that completed the TLS / SP /
// WebSocket handshake as the listening side (inproc, which has no wire: a mangos PAIR socket that
// is closed).  Its listener is closed before the connection is ended, so that the first redials
// are refused; then a mangos PAIR socket listens at the same address ("a listener is there
// again").
//
// Oracle: the dialing PAIR socket (ReconnectTime 50 ms, no back-off) sees the loss (Detached),
// gets a second Attached, and a marker message sent by the application after that arrives at the
// new peer.  Wall clock is a hang watchdog only (10 s each); a redial that works takes some 50 ms.
// A failing case is re-run three times on fresh objects.
package c14

import (
	"crypto/sha1"
	"crypto/tls"
	"encoding/base64"
	"errors"
	"fmt"
	"io"
	"net"
	"os"
	"strings"
	"sync"
	"sync/atomic"
	"time"

	"go.nanomsg.org/mangos/v3"
	itest "go.nanomsg.org/mangos/v3/internal/test"
	"go.nanomsg.org/mangos/v3/protocol/pair"
	_ "go.nanomsg.org/mangos/v3/transport/all"
	"go.nanomsg.org/mangos/v3/ve/ekit"
)

const (
	watchdog      = 10 * time.Second
	reconnectTime = 50 * time.Millisecond
	wsGUID        = "258EAFA5-E914-47DA-95CA-C5AB0DC85B11"
)

type tran struct {
	name, scheme, family string // family: inproc, unix, tcp
	tls, http            bool
}

var trans = []*tran{
	{"inproc", "inproc", "inproc", false, false},
	{"ipc", "ipc", "unix", false, false},
	{"tcp", "tcp", "tcp", false, false},
	{"tls", "tls+tcp", "tcp", true, false},
	{"ws", "ws", "tcp", false, true},
	{"wss", "wss", "tcp", true, true},
}

func (t *tran) modes() []string {
	switch t.family {
	case "inproc":
		return []string{"clean"}
	case "unix":
		return []string{"clean", "killed"}
	}
	return []string{"clean", "reset", "killed"}
}

var (
	tlsOnce        sync.Once
	tlsSrv, tlsCli *tls.Config
	tlsErr         error
	seq            uint64
)

func tlsConfigs() (*tls.Config, *tls.Config, error) {
	tlsOnce.Do(func() { tlsSrv, tlsCli, _, tlsErr = itest.NewTLSConfig() })
	return tlsSrv, tlsCli, tlsErr
}

// loopIP: a loopback address of this process's own (all of 127/8 is local), so that the port of
// the raw listener cannot be handed to another process before the mangos listener binds it again.
func loopIP() string {
	pid := os.Getpid()
	return fmt.Sprintf("127.%d.%d.%d", 1+(pid>>16)&0x3f, (pid>>8)&0xff, pid&0xff)
}

type failure struct {
	kind    string
	timeout bool
	msg     string
}

func failf(kind string, timeout bool, format string, a ...interface{}) *failure {
	return &failure{kind, timeout, fmt.Sprintf(format, a...)}
}

// subject is the dialing socket with its pipe events.
type subject struct {
	s        mangos.Socket
	mu       sync.Mutex
	att, det int
}

func (x *subject) hook(ev mangos.PipeEvent, _ mangos.Pipe) {
	x.mu.Lock()
	switch ev {
	case mangos.PipeEventAttached:
		x.att++
	case mangos.PipeEventDetached:
		x.det++
	}
	x.mu.Unlock()
}

func (x *subject) counts() (int, int) {
	x.mu.Lock()
	defer x.mu.Unlock()
	return x.att, x.det
}

func poll(bound time.Duration, cond func() bool) bool {
	end := time.Now().Add(bound)
	for {
		if cond() {
			return true
		}
		if time.Now().After(end) {
			return false
		}
		time.Sleep(2 * time.Millisecond)
	}
}

func spHeader(proto uint16) []byte {
	return []byte{0, 'S', 'P', 0, byte(proto >> 8), byte(proto), 0, 0}
}

func readHTTPHead(c net.Conn) (string, error) {
	var b []byte
	one := make([]byte, 1)
	for len(b) < 16<<10 {
		if _, err := io.ReadFull(c, one); err != nil {
			return string(b), err
		}
		b = append(b, one[0])
		if len(b) >= 4 && string(b[len(b)-4:]) == "\r\n\r\n" {
			return string(b), nil
		}
	}
	return string(b), errors.New("HTTP header too long")
}

func headerValue(head, name string) string {
	for _, ln := range strings.Split(head, "\r\n") {
		if i := strings.IndexByte(ln, ':'); i > 0 && strings.EqualFold(strings.TrimSpace(ln[:i]), name) {
			return strings.TrimSpace(ln[i+1:])
		}
	}
	return ""
}

// serverHandshake completes the listening side of the transport handshake on a raw connection:
// TLS (if any), then the SP header exchange or the WebSocket upgrade for protocol PAIR.
func serverHandshake(t *tran, c net.Conn) (net.Conn, error) {
	_ = c.SetDeadline(time.Now().Add(watchdog))
	s := c
	if t.tls {
		srv, _, err := tlsConfigs()
		if err != nil {
			return nil, err
		}
		tc := tls.Server(c, srv)
		if err := tc.Handshake(); err != nil {
			return nil, fmt.Errorf("tls handshake: %v", err)
		}
		s = tc
	}
	if !t.http {
		if _, err := s.Write(spHeader(mangos.ProtoPair)); err != nil {
			return nil, fmt.Errorf("SP header write: %v", err)
		}
		h := make([]byte, 8)
		if _, err := io.ReadFull(s, h); err != nil {
			return nil, fmt.Errorf("SP header read: %v", err)
		}
		if string(h) != string(spHeader(mangos.ProtoPair)) {
			return nil, fmt.Errorf("SP header of the dialer: % x", h)
		}
	} else {
		head, err := readHTTPHead(s)
		if err != nil {
			return nil, fmt.Errorf("upgrade request: %v", err)
		}
		key := headerValue(head, "Sec-WebSocket-Key")
		sub := headerValue(head, "Sec-WebSocket-Protocol")
		if key == "" || sub != "pair.sp.nanomsg.org" {
			return nil, fmt.Errorf("unexpected upgrade request (key %q, sub-protocol %q)", key, sub)
		}
		sum := sha1.Sum([]byte(key + wsGUID))
		resp := "HTTP/1.1 101 Switching Protocols\r\nUpgrade: websocket\r\nConnection: Upgrade\r\n" +
			"Sec-WebSocket-Accept: " + base64.StdEncoding.EncodeToString(sum[:]) + "\r\n" +
			"Sec-WebSocket-Protocol: " + sub + "\r\n\r\n"
		if _, err := s.Write([]byte(resp)); err != nil {
			return nil, fmt.Errorf("upgrade response: %v", err)
		}
	}
	_ = c.SetDeadline(time.Time{})
	return s, nil
}

func dialOpts(t *tran) (map[string]interface{}, map[string]interface{}, error) {
	if !t.tls {
		return nil, nil, nil
	}
	srv, cli, err := tlsConfigs()
	if err != nil {
		return nil, nil, err
	}
	return map[string]interface{}{mangos.OptionTLSConfig: srv}, map[string]interface{}{mangos.OptionTLSConfig: cli}, nil
}

// runCase runs one case on fresh objects.
func runCase(t *tran, mode string, ops *int64) *failure {
	n := atomic.AddUint64(&seq, 1)
	srvOpts, cliOpts, err := dialOpts(t)
	if err != nil {
		return failf("setup", false, "tls config: %v", err)
	}
	s, err := pair.NewSocket()
	if err != nil {
		return failf("setup", false, "%v", err)
	}
	defer s.Close()
	subj := &subject{s: s}
	s.SetPipeEventHook(subj.hook)
	_ = s.SetOption(mangos.OptionReconnectTime, reconnectTime)
	_ = s.SetOption(mangos.OptionMaxReconnectTime, time.Duration(0))
	_ = s.SetOption(mangos.OptionSendDeadline, 200*time.Millisecond)

	// --- the first peer
	var addr string
	var rawLn net.Listener
	var first mangos.Socket
	switch t.family {
	case "inproc":
		addr = fmt.Sprintf("inproc://c14-%d-%d", os.Getpid(), n)
		if first, err = pair.NewSocket(); err != nil {
			return failf("setup", false, "%v", err)
		}
		defer first.Close()
		if err = first.Listen(addr); err != nil {
			return failf("setup", false, "first peer Listen(%s): %v", addr, err)
		}
	case "unix":
		dir := ekit.Tmp
		if len(dir) > 70 {
			dir = os.TempDir()
		}
		path := fmt.Sprintf("%s/c14-%d-%d.sock", dir, os.Getpid(), n)
		if rawLn, err = net.Listen("unix", path); err != nil {
			return failf("setup", false, "raw listener: %v", err)
		}
		addr = "ipc://" + path
	default:
		if rawLn, err = net.Listen("tcp", loopIP()+":0"); err != nil {
			return failf("setup", false, "raw listener: %v", err)
		}
		addr = t.scheme + "://" + rawLn.Addr().String()
		if t.http {
			addr += "/c14"
		}
	}
	type accepted struct {
		raw, s net.Conn
		err    error
	}
	acc := make(chan accepted, 1)
	if rawLn != nil {
		defer rawLn.Close()
		go func() {
			c, err := rawLn.Accept()
			if err != nil {
				acc <- accepted{err: err}
				return
			}
			sc, err := serverHandshake(t, c)
			acc <- accepted{c, sc, err}
		}()
	}
	atomic.AddInt64(ops, 2)
	if err = s.DialOptions(addr, cliOpts); err != nil {
		return failf("setup", false, "Dial(%s): %v", addr, err)
	}
	var c1 accepted
	if rawLn != nil {
		select {
		case c1 = <-acc:
		case <-time.After(watchdog):
			return failf("setup", true, "the raw peer saw no connection")
		}
		if c1.err != nil {
			return failf("setup", false, "raw peer: %v", c1.err)
		}
		defer c1.raw.Close()
	}
	if !poll(watchdog, func() bool { a, _ := subj.counts(); return a >= 1 }) {
		return failf("setup", true, "the dialer did not attach to the first peer")
	}

	// --- the peer goes away (its listener first: the first redials are refused)
	var stop int32
	var wg sync.WaitGroup
	defer wg.Wait()
	defer atomic.StoreInt32(&stop, 1)
	if mode == "killed" {
		for i := 0; i < 3; i++ {
			_ = s.Send([]byte(fmt.Sprintf("unread-%d", i)))
			atomic.AddInt64(ops, 1)
		}
		wg.Add(1)
		go func() { // the application keeps sending: writes on the dead connection fail
			defer wg.Done()
			for atomic.LoadInt32(&stop) == 0 {
				_ = s.Send([]byte("fill"))
				time.Sleep(time.Millisecond)
			}
		}()
		time.Sleep(20 * time.Millisecond)
	}
	if rawLn != nil {
		_ = rawLn.Close()
	}
	atomic.AddInt64(ops, 1)
	switch {
	case first != nil:
		_ = first.Close()
	case mode == "clean":
		_ = c1.s.Close() // tls: close_notify, then the TCP connection
		_ = c1.raw.Close()
	case mode == "reset":
		if tc, ok := c1.raw.(*net.TCPConn); ok {
			_ = tc.SetLinger(0)
		}
		_ = c1.raw.Close()
	case mode == "killed":
		_ = c1.raw.Close() // unread data: the kernel resets the connection
	}
	if !poll(watchdog, func() bool { _, d := subj.counts(); return d >= 1 }) {
		return failf("loss-not-noticed", true, "%v after the peer ended the connection (%s) the dialing socket has seen no Detached event", watchdog, mode)
	}
	time.Sleep(3 * reconnectTime) // a few refused redials (stimulus only)

	// --- a listener is there again
	second, err := pair.NewSocket()
	if err != nil {
		return failf("setup", false, "%v", err)
	}
	defer second.Close()
	_ = second.SetOption(mangos.OptionRecvDeadline, watchdog)
	atomic.AddInt64(ops, 1)
	if err = second.ListenOptions(addr, srvOpts); err != nil {
		return failf("setup", false, "second peer Listen(%s): %v", addr, err)
	}
	t0 := time.Now()
	if !poll(watchdog, func() bool { a, _ := subj.counts(); return a >= 2 }) {
		a, d := subj.counts()
		return failf("no-redial", true, "a listener is back at %s but %v later the dialing socket (ReconnectTime %v) has no new connection (Attached events: %d, Detached: %d) after its peer ended the first one (%s)", addr, watchdog, reconnectTime, a, d, mode)
	}
	_ = t0
	atomic.StoreInt32(&stop, 1)
	marker := fmt.Sprintf("marker-%d", n)
	sent := poll(watchdog, func() bool { atomic.AddInt64(ops, 1); return s.Send([]byte(marker)) == nil })
	if !sent {
		return failf("send-after-redial", true, "Send fails for %v on the re-established connection (%s)", watchdog, mode)
	}
	end := time.Now().Add(watchdog)
	for time.Now().Before(end) {
		b, err := second.Recv()
		atomic.AddInt64(ops, 1)
		if err != nil {
			break
		}
		if string(b) == marker {
			return nil
		}
	}
	return failf("message-lost-after-redial", true, "the message sent on the re-established connection did not arrive within %v (%s)", watchdog, mode)
}

func scenario(st *ekit.Stats, tier string) {
	st.Note = fmt.Sprintf("6 transports x the way a raw, handshake-complete peer ends the connection of a dialing PAIR socket (clean / TCP reset / vanishes with unread data while the dialer sends; inproc: mangos peer closed); listener closed first, a mangos listener at the same address afterwards; ReconnectTime %v; oracle: Detached, second Attached, marker message arrives (watchdog %v)", reconnectTime, watchdog)
	type cs struct {
		t    *tran
		mode string
	}
	var cases []cs
	for _, t := range trans {
		for _, m := range t.modes() {
			cases = append(cases, cs{t, m})
		}
	}
	var wg sync.WaitGroup
	for _, c := range cases {
		wg.Add(1)
		go func(c cs) {
			defer wg.Done()
			var ops int64
			var f *failure
			for try := 0; try < 3; try++ {
				if f = runCase(c.t, c.mode, &ops); f == nil || f.kind != "setup" {
					break
				}
			}
			st.Case(int(ops))
			input := fmt.Sprintf("transport=%s loss=%s: PAIR dials a raw peer that completed the handshake; the peer's listener is closed, the connection ended (%s); then a PAIR socket listens at the same address", c.t.name, c.mode, c.mode)
			if f == nil {
				st.Nontrivial(c.t.name + "/" + c.mode)
				st.Count("redialed-and-delivered")
				return
			}
			if f.kind == "setup" {
				st.Count("setup-failed")
				st.Cap(fmt.Sprintf("case %s/%s: %s", c.t.name, c.mode, f.msg))
				return
			}
			var repro int32
			var rwg sync.WaitGroup
			for i := 0; i < 3; i++ {
				rwg.Add(1)
				go func() {
					defer rwg.Done()
					var o int64
					if g := runCase(c.t, c.mode, &o); g != nil && g.kind == f.kind {
						atomic.AddInt32(&repro, 1)
					}
				}()
			}
			rwg.Wait()
			sig := fmt.Sprintf("redial-after-loss-%s:%s:%s", f.kind, c.t.name, c.mode)
			if repro > 0 {
				st.Fail(sig, "hang", input, "%s [reproduced %d/3 on fresh sockets]", f.msg, repro)
			} else {
				st.Count("timeout-not-reproduced")
				st.Sample(map[string]string{"unreproduced": f.msg, "input": input})
			}
		}(c)
	}
	wg.Wait()
	st.Sample(map[string]string{"case": "transport=tls loss=reset"})
}

func init() {
	ekit.Register("C14", ekit.Scenario{Name: "redial-after-real-loss", Run: scenario})
}
