package c15

import (
	"crypto/tls"
	"fmt"
	"net"
	"os"
	"path/filepath"
	"strings"
	"sync"
	"sync/atomic"
	"time"

	"go.nanomsg.org/mangos/v3"
	itest "go.nanomsg.org/mangos/v3/internal/test"
	"go.nanomsg.org/mangos/v3/protocol/bus"
	"go.nanomsg.org/mangos/v3/protocol/pair"
	"go.nanomsg.org/mangos/v3/protocol/pair1"
	"go.nanomsg.org/mangos/v3/protocol/pub"
	"go.nanomsg.org/mangos/v3/protocol/pull"
	"go.nanomsg.org/mangos/v3/protocol/push"
	"go.nanomsg.org/mangos/v3/protocol/rep"
	"go.nanomsg.org/mangos/v3/protocol/req"
	"go.nanomsg.org/mangos/v3/protocol/respondent"
	"go.nanomsg.org/mangos/v3/protocol/star"
	"go.nanomsg.org/mangos/v3/protocol/sub"
	"go.nanomsg.org/mangos/v3/protocol/surveyor"
	"go.nanomsg.org/mangos/v3/protocol/xbus"
	"go.nanomsg.org/mangos/v3/protocol/xpair"
	"go.nanomsg.org/mangos/v3/protocol/xpair1"
	"go.nanomsg.org/mangos/v3/protocol/xpub"
	"go.nanomsg.org/mangos/v3/protocol/xpull"
	"go.nanomsg.org/mangos/v3/protocol/xpush"
	"go.nanomsg.org/mangos/v3/protocol/xrep"
	"go.nanomsg.org/mangos/v3/protocol/xreq"
	"go.nanomsg.org/mangos/v3/protocol/xrespondent"
	"go.nanomsg.org/mangos/v3/protocol/xstar"
	"go.nanomsg.org/mangos/v3/protocol/xsub"
	"go.nanomsg.org/mangos/v3/protocol/xsurveyor"
	"go.nanomsg.org/mangos/v3/ve/ekit"

	_ "go.nanomsg.org/mangos/v3/transport/ipc"
	_ "go.nanomsg.org/mangos/v3/transport/tcp"
	_ "go.nanomsg.org/mangos/v3/transport/tlstcp"
	_ "go.nanomsg.org/mangos/v3/transport/ws"
	_ "go.nanomsg.org/mangos/v3/transport/wss"
)

// kind is one mangos socket type.  self/peer/names are the harness' own table of the SP
// protocol numbers (major*16+minor) and names; they are NOT read from mangos.
type kind struct {
	name     string
	self     uint16
	peer     uint16
	selfName string
	peerName string
	raw      bool
	mk       func() (mangos.Socket, error)
}

var cooked = []kind{
	{"pair", 1*16 + 0, 1*16 + 0, "pair", "pair", false, pair.NewSocket},
	{"pair1", 1*16 + 1, 1*16 + 1, "pair1", "pair1", false, pair1.NewSocket},
	{"pub", 2*16 + 0, 2*16 + 1, "pub", "sub", false, pub.NewSocket},
	{"sub", 2*16 + 1, 2*16 + 0, "sub", "pub", false, sub.NewSocket},
	{"req", 3*16 + 0, 3*16 + 1, "req", "rep", false, req.NewSocket},
	{"rep", 3*16 + 1, 3*16 + 0, "rep", "req", false, rep.NewSocket},
	{"push", 5*16 + 0, 5*16 + 1, "push", "pull", false, push.NewSocket},
	{"pull", 5*16 + 1, 5*16 + 0, "pull", "push", false, pull.NewSocket},
	{"surveyor", 6*16 + 2, 6*16 + 3, "surveyor", "respondent", false, surveyor.NewSocket},
	{"respondent", 6*16 + 3, 6*16 + 2, "respondent", "surveyor", false, respondent.NewSocket},
	{"bus", 7*16 + 0, 7*16 + 0, "bus", "bus", false, bus.NewSocket},
	{"star", 100*16 + 0, 100*16 + 0, "star", "star", false, star.NewSocket},
}

var rawKinds = []kind{
	{"xpair", 1*16 + 0, 1*16 + 0, "pair", "pair", true, xpair.NewSocket},
	{"xpair1", 1*16 + 1, 1*16 + 1, "pair1", "pair1", true, xpair1.NewSocket},
	{"xpub", 2*16 + 0, 2*16 + 1, "pub", "sub", true, xpub.NewSocket},
	{"xsub", 2*16 + 1, 2*16 + 0, "sub", "pub", true, xsub.NewSocket},
	{"xreq", 3*16 + 0, 3*16 + 1, "req", "rep", true, xreq.NewSocket},
	{"xrep", 3*16 + 1, 3*16 + 0, "rep", "req", true, xrep.NewSocket},
	{"xpush", 5*16 + 0, 5*16 + 1, "push", "pull", true, xpush.NewSocket},
	{"xpull", 5*16 + 1, 5*16 + 0, "pull", "push", true, xpull.NewSocket},
	{"xsurveyor", 6*16 + 2, 6*16 + 3, "surveyor", "respondent", true, xsurveyor.NewSocket},
	{"xrespondent", 6*16 + 3, 6*16 + 2, "respondent", "surveyor", true, xrespondent.NewSocket},
	{"xbus", 7*16 + 0, 7*16 + 0, "bus", "bus", true, xbus.NewSocket},
	{"xstar", 100*16 + 0, 100*16 + 0, "star", "star", true, xstar.NewSocket},
}

func allKinds() []kind { return append(append([]kind{}, cooked...), rawKinds...) }

func kindByName(n string) kind {
	for _, k := range allKinds() {
		if k.name == n {
			return k
		}
	}
	panic("no kind " + n)
}

// the 12 protocol numbers
func allProtoNumbers() []uint16 {
	var out []uint16
	for _, k := range cooked {
		out = append(out, k.self)
	}
	return out
}

var streamTransports = []string{"tcp", "tls+tcp", "ipc"}

const (
	roleDial   = "mangos-dials"
	roleListen = "mangos-listens"
)

var roles = []string{roleDial, roleListen}

// ---------------------------------------------------------------------------------
// TLS material (certificates from mangos' internal/test helper; the harness side talks
// plain crypto/tls)
// ---------------------------------------------------------------------------------

var (
	tlsOnce sync.Once
	srvCfg  *tls.Config
	cliCfg  *tls.Config
	tlsErr  error
)

func tlsConfigs() (*tls.Config, *tls.Config, error) {
	tlsOnce.Do(func() {
		srvCfg, cliCfg, _, tlsErr = itest.NewTLSConfig()
	})
	return srvCfg, cliCfg, tlsErr
}

// ---------------------------------------------------------------------------------
// pipe event log of one mangos socket
// ---------------------------------------------------------------------------------

type evlog struct {
	mu       sync.Mutex
	attached []uint32
	detached int
	ch       chan struct{}
}

func newEvlog() *evlog { return &evlog{ch: make(chan struct{}, 1)} }

func (e *evlog) hook(ev mangos.PipeEvent, p mangos.Pipe) {
	e.mu.Lock()
	switch ev {
	case mangos.PipeEventAttached:
		e.attached = append(e.attached, p.ID())
	case mangos.PipeEventDetached:
		e.detached++
	}
	e.mu.Unlock()
	select {
	case e.ch <- struct{}{}:
	default:
	}
}

func (e *evlog) nAttached() int {
	e.mu.Lock()
	defer e.mu.Unlock()
	return len(e.attached)
}

func (e *evlog) lastID() uint32 {
	e.mu.Lock()
	defer e.mu.Unlock()
	if len(e.attached) == 0 {
		return 0
	}
	return e.attached[len(e.attached)-1]
}

func (e *evlog) wait(cond func() bool, d time.Duration) bool {
	deadline := time.NewTimer(d)
	defer deadline.Stop()
	for {
		e.mu.Lock()
		ok := cond()
		e.mu.Unlock()
		if ok {
			return true
		}
		select {
		case <-e.ch:
		case <-time.After(20 * time.Millisecond):
		case <-deadline.C:
			e.mu.Lock()
			ok = cond()
			e.mu.Unlock()
			return ok
		}
	}
}

func (e *evlog) waitAttached(n int) bool {
	return e.wait(func() bool { return len(e.attached) >= n }, watchdog)
}

func (e *evlog) waitDetached(n int) bool {
	return e.wait(func() bool { return e.detached >= n }, watchdog)
}

// ---------------------------------------------------------------------------------
// one mangos socket facing the harness over one transport in one role
// ---------------------------------------------------------------------------------

var uniq uint64

func sockPath() string {
	n := atomic.AddUint64(&uniq, 1)
	_ = os.MkdirAll(ekit.Tmp, 0o755)
	return filepath.Join(ekit.Tmp, fmt.Sprintf("c15-%d-%d.sock", os.Getpid(), n))
}

// endpoint couples a mangos socket with the harness' raw side.
type endpoint struct {
	k    kind
	tran string // tcp, tls+tcp, ipc, ws, wss
	role string
	sock mangos.Socket
	ev   *evlog

	// roleListen: mangos listens at maddr, the harness dials rawAddr
	ml      mangos.Listener
	rawNet  string
	rawAddr string
	// roleDial: the harness listens on ln, mangos dials maddr
	ln    net.Listener
	maddr string
	path  string // unix socket path to remove
}

func (ep *endpoint) ipc() bool { return ep.tran == "ipc" }

func (ep *endpoint) tlsWrapped() bool { return ep.tran == "tls+tcp" || ep.tran == "wss" }

func newEndpoint(k kind, tran, role string) (*endpoint, error) {
	ep := &endpoint{k: k, tran: tran, role: role, ev: newEvlog()}
	s, err := k.mk()
	if err != nil {
		return nil, err
	}
	ep.sock = s
	s.SetPipeEventHook(ep.ev.hook)
	// generous: only hang detectors
	_ = s.SetOption(mangos.OptionRecvDeadline, watchdog)
	_ = s.SetOption(mangos.OptionSendDeadline, watchdog)
	scfg, ccfg, err := tlsConfigs()
	if err != nil {
		_ = s.Close()
		return nil, err
	}
	if role == roleListen {
		var addr string
		opts := map[string]interface{}{}
		switch tran {
		case "tcp":
			addr = "tcp://127.0.0.1:0"
		case "tls+tcp":
			addr = "tls+tcp://127.0.0.1:0"
			opts[mangos.OptionTLSConfig] = scfg
		case "ipc":
			ep.path = sockPath()
			addr = "ipc://" + ep.path
		case "ws":
			addr = "ws://127.0.0.1:0/c15"
		case "wss":
			addr = "wss://127.0.0.1:0/c15"
			opts[mangos.OptionTLSConfig] = scfg
		}
		l, err := s.NewListener(addr, opts)
		if err != nil {
			_ = s.Close()
			return nil, fmt.Errorf("NewListener(%s): %v", addr, err)
		}
		if err = l.Listen(); err != nil {
			_ = s.Close()
			return nil, fmt.Errorf("Listen(%s): %v", addr, err)
		}
		ep.ml = l
		bound := l.Address()
		i := strings.Index(bound, "://")
		rest := bound[i+3:]
		if tran == "ipc" {
			ep.rawNet, ep.rawAddr = "unix", ep.path
		} else {
			if j := strings.Index(rest, "/"); j >= 0 {
				rest = rest[:j]
			}
			ep.rawNet, ep.rawAddr = "tcp", rest
		}
		return ep, nil
	}
	// roleDial
	var ln net.Listener
	switch tran {
	case "ipc":
		ep.path = sockPath()
		ln, err = net.Listen("unix", ep.path)
		ep.maddr = "ipc://" + ep.path
	default:
		ln, err = net.Listen("tcp", "127.0.0.1:0")
		if err == nil {
			ep.maddr = tran + "://" + ln.Addr().String()
			if tran == "ws" || tran == "wss" {
				ep.maddr += "/c15"
			}
			if ep.tlsWrapped() {
				ln = tls.NewListener(ln, scfg)
			}
		}
	}
	if err != nil {
		_ = s.Close()
		return nil, err
	}
	_ = ccfg
	ep.ln = ln
	return ep, nil
}

func (ep *endpoint) close() {
	_ = ep.sock.Close()
	if ep.ln != nil {
		_ = ep.ln.Close()
	}
	if ep.path != "" {
		_ = os.Remove(ep.path)
	}
}

// rawDial connects the harness to the mangos listener (roleListen).
func (ep *endpoint) rawDial() (net.Conn, error) {
	d := net.Dialer{Timeout: watchdog}
	if ep.tlsWrapped() {
		_, ccfg, _ := tlsConfigs()
		return tls.DialWithDialer(&d, ep.rawNet, ep.rawAddr, ccfg)
	}
	return d.Dial(ep.rawNet, ep.rawAddr)
}

// mangosDial makes mangos dial the harness listener (roleDial) with a fresh synchronous
// dialer; the harness side of the connection is returned together with a channel carrying
// the result of Dial and the dialer (to be closed by the caller so that it never redials).
func (ep *endpoint) mangosDial() (net.Conn, mangos.Dialer, chan error, error) {
	opts := map[string]interface{}{}
	if ep.tlsWrapped() {
		_, ccfg, _ := tlsConfigs()
		opts[mangos.OptionTLSConfig] = ccfg
	}
	d, err := ep.sock.NewDialer(ep.maddr, opts)
	if err != nil {
		return nil, nil, nil, fmt.Errorf("NewDialer(%s): %v", ep.maddr, err)
	}
	res := make(chan error, 1)
	go func() { res <- d.Dial() }()
	type acc struct {
		c net.Conn
		e error
	}
	ac := make(chan acc, 1)
	go func() {
		c, e := ep.ln.Accept()
		ac <- acc{c, e}
	}()
	select {
	case a := <-ac:
		if a.e != nil {
			_ = d.Close()
			return nil, nil, nil, fmt.Errorf("harness accept: %v", a.e)
		}
		return a.c, d, res, nil
	case <-time.After(watchdog):
		_ = d.Close()
		_ = ep.ln.Close() // unblocks the accept goroutine; the endpoint is unusable from now on
		return nil, nil, nil, failf("C15/dialer-never-connected/"+ep.tran, "hang", "the mangos %s dialer did not connect to %s within %v", ep.k.name, ep.maddr, watchdog)
	}
}

// connect establishes one transport level connection in the endpoint's role.  done must
// be called when the case is over (it closes the dialer first so that mangos does not
// redial, then the raw connection).
func (ep *endpoint) connect() (c net.Conn, dialRes chan error, done func(), err error) {
	if ep.role == roleListen {
		c, err = ep.rawDial()
		if err != nil {
			return nil, nil, nil, failf("C15/listener-not-accepting/"+ep.tran, "fail",
				"the mangos %s listener at %s does not accept a new connection: %v", ep.k.name, ep.rawAddr, err)
		}
		return c, nil, func() { _ = c.Close() }, nil
	}
	c, d, res, err := ep.mangosDial()
	if err != nil {
		return nil, nil, nil, err
	}
	return c, res, func() { _ = d.Close(); _ = c.Close() }, nil
}

// ---------------------------------------------------------------------------------
// worker pool
// ---------------------------------------------------------------------------------

func runParallel(st *ekit.Stats, workers int, tasks []func()) {
	var wg sync.WaitGroup
	ch := make(chan func())
	for i := 0; i < workers; i++ {
		wg.Add(1)
		go func() {
			defer wg.Done()
			for t := range ch {
				t()
			}
		}()
	}
	capped := false
	for _, t := range tasks {
		if st.OutOfTime() {
			capped = true
			break
		}
		ch <- t
	}
	close(ch)
	wg.Wait()
	if capped {
		st.Cap("wall clock budget used up before all tasks were started")
	}
}

// retry3 evaluates a failing case three more times; the violation is reported only when
// it fails every time (a case that passes on a rerun is counted as flaky).
//
// Once a signature has been confirmed by three reruns for three different cases, further
// cases failing with the very same signature are recorded without reruns (ekit only bumps
// the count of the already reported violation), which keeps a badly broken tree in budget.
func retry3(st *ekit.Stats, first error, again func() error) error {
	if first == nil {
		return nil
	}
	fsig := ""
	if ce, ok := first.(*caseErr); ok {
		fsig = ce.sig
		confirmedMu.Lock()
		n := confirmed[fsig]
		confirmedMu.Unlock()
		if n >= 3 {
			return first
		}
	}
	err := first
	for i := 0; i < 3; i++ {
		if err = again(); err == nil {
			st.Count("flaky_passed_on_rerun")
			st.Sample("flaky: " + first.Error())
			return nil
		}
	}
	if ce, ok := err.(*caseErr); ok && ce.sig == fsig {
		confirmedMu.Lock()
		confirmed[fsig]++
		confirmedMu.Unlock()
	}
	return err
}

var (
	confirmedMu sync.Mutex
	confirmed   = map[string]int{}
)

// caseErr is a failed oracle: sig is the stable signature.
type caseErr struct {
	sig  string
	kind string
	msg  string
}

func (e *caseErr) Error() string { return e.sig + ": " + e.msg }

func failf(sig, kind, format string, a ...interface{}) *caseErr {
	return &caseErr{sig: sig, kind: kind, msg: fmt.Sprintf(format, a...)}
}

// guard stops a task after three reported hangs (each costs 4 x the watchdog): the
// violations are on record, the rest of the task would only burn the budget.
type guard struct{ hangs int }

func (g *guard) stop() bool { return g.hangs >= 3 }

func (g *guard) report(st *ekit.Stats, err error, input string) {
	if ce, ok := err.(*caseErr); ok && ce.kind == "hang" {
		g.hangs++
		if g.stop() {
			st.Cap("a task was abandoned after three reported hangs")
		}
	}
	report(st, err, input)
}

func report(st *ekit.Stats, err error, input string) {
	if ce, ok := err.(*caseErr); ok {
		st.Fail(ce.sig, ce.kind, input, "%s", ce.msg)
		return
	}
	// not a verdict about mangos: the harness could not set the case up.  The enumeration
	// is marked incomplete instead of reporting a violation.
	st.Count("environment_error")
	st.Sample(fmt.Sprintf("environment error: %v [%s]", err, input))
	st.Cap(fmt.Sprintf("environment error: %v", err))
}
