package c15

import (
	"bytes"
	"fmt"
	"io"
	"time"

	"go.nanomsg.org/mangos/v3/ve/ekit"
)

func init() {
	ekit.Register("C15", ekit.Scenario{Name: "stream_handshake_valid_and_wrong_proto", Run: runHandshakeProto})
	ekit.Register("C15", ekit.Scenario{Name: "stream_handshake_single_byte_deviation", Run: runHandshakeGrid})
}

// handshakeCase opens one connection between the harness and the mangos socket of ep, has
// the harness send hdr as its 8 byte header and checks mangos' reaction.
//
//	always: the first 8 bytes mangos writes are 00 'S' 'P' 00 <self be16> 00 00
//	good:   a pipe attaches (and a synchronous Dial returns nil)
//	bad:    no pipe attaches, mangos closes the connection (and Dial returns an error)
func (ep *endpoint) handshakeCase(hdr []byte, good bool, tag string, cut int) error {
	before := ep.ev.nAttached()
	c, dialRes, done, err := ep.connect()
	if err != nil {
		return err
	}
	finished := false
	defer func() {
		if !finished {
			done()
		}
	}()
	_ = c.SetDeadline(time.Now().Add(watchdog))
	if cut > 0 && cut < len(hdr) {
		// a slow peer: the header in two writes
		if _, err = c.Write(hdr[:cut]); err == nil {
			time.Sleep(300 * time.Microsecond)
			_, err = c.Write(hdr[cut:])
		}
	} else {
		_, err = c.Write(hdr)
	}
	if err != nil {
		return fmt.Errorf("harness could not write its header: %v", err)
	}
	got := make([]byte, 8)
	if n, err := io.ReadFull(c, got); err != nil {
		kind := "fail"
		if isTimeout(err) {
			kind = "hang"
		}
		return failf("C15/handshake/mangos-header-missing/"+ep.tran+"/"+ep.role, kind,
			"mangos wrote only %d bytes (%x) of its connection header before %v", n, got[:n], err)
	}
	if want := spHeader(ep.k.self); !bytes.Equal(got, want) {
		return failf("C15/handshake/mangos-header-bytes/"+ep.tran+"/"+ep.role, "fail",
			"mangos %s socket sent header %x, the SP mapping demands %x", ep.k.name, got, want)
	}

	if good {
		if !ep.ev.waitAttached(before + 1) {
			return failf("C15/handshake/valid-header-no-pipe/"+ep.tran+"/"+ep.role, "hang",
				"a well-formed header %x naming the expected peer protocol did not make a pipe attach within %v", hdr, watchdog)
		}
		if dialRes != nil {
			select {
			case e := <-dialRes:
				if e != nil {
					return failf("C15/handshake/valid-header-dial-error/"+ep.tran, "fail", "Dial returned %v after a valid handshake", e)
				}
			case <-time.After(watchdog):
				return failf("C15/handshake/valid-header-dial-hang/"+ep.tran, "hang", "Dial did not return within %v after a valid handshake", watchdog)
			}
		}
		detBefore := ep.ev.nAttached()
		finished = true
		done()
		// the socket must be free again for the next case (PAIR admits one peer only); not an oracle
		if !ep.ev.waitDetached(detBefore) {
			return fmt.Errorf("pipe did not detach within %v after the harness closed the connection", watchdog)
		}
		return nil
	}

	// bad header: wait until mangos closes the connection.  A pipe attaching decides the
	// case immediately; the watchdog only detects a hang.
	start := time.Now()
	one := make([]byte, 64)
	closed := false
	poll := time.Millisecond
	for time.Since(start) < watchdog {
		_ = c.SetReadDeadline(time.Now().Add(poll))
		if poll < 50*time.Millisecond {
			poll *= 2
		}
		_, err := c.Read(one)
		if err == nil {
			continue
		}
		if !isTimeout(err) {
			closed = true
			break
		}
		if ep.ev.nAttached() > before {
			break
		}
	}
	attached := ep.ev.nAttached() > before
	if dialRes != nil && (closed || attached) {
		select {
		case e := <-dialRes:
			if e == nil && !attached {
				// wait for the attach event that necessarily follows a successful Dial
				ep.ev.waitAttached(before + 1)
				attached = ep.ev.nAttached() > before
				if !attached {
					return failf("C15/handshake/bad-header-dial-succeeded/"+ep.tran+"/"+tag, "fail", "Dial returned nil although the peer header %x is not acceptable", hdr)
				}
			}
		case <-time.After(watchdog):
			return failf("C15/handshake/bad-header-dial-hang/"+ep.tran+"/"+tag, "hang", "Dial did not return within %v after the peer header %x", watchdog, hdr)
		}
	}
	if attached {
		n := ep.ev.nAttached()
		finished = true
		done()
		ep.ev.waitDetached(n)
		return failf("C15/handshake/bad-header-accepted/"+ep.tran+"/"+ep.role+"/"+tag, "fail",
			"a pipe attached although the peer sent header %x (acceptable is only %x)", hdr, spHeader(ep.k.peer))
	}
	if !closed {
		return failf("C15/handshake/bad-header-not-closed/"+ep.tran+"/"+ep.role+"/"+tag, "hang",
			"mangos neither closed the connection nor attached a pipe within %v after the peer header %x", watchdog, hdr)
	}
	return nil
}

// hsTask runs a list of handshake cases on one endpoint; a failing case is re-run three
// times, each on a fresh mangos socket, before it is reported.
type hsTask struct {
	st   *ekit.Stats
	k    kind
	tran string
	role string
	ep   *endpoint
	g    guard
}

func (t *hsTask) fresh() error {
	if t.ep != nil {
		t.ep.close()
		t.ep = nil
	}
	ep, err := newEndpoint(t.k, t.tran, t.role)
	if err != nil {
		return err
	}
	t.ep = ep
	return nil
}

func (t *hsTask) do(hdr []byte, good bool, tag, what string, cut ...int) bool {
	c := 0
	if len(cut) > 0 {
		c = cut[0]
	}
	if t.g.stop() {
		return false
	}
	run := func() error {
		if t.ep == nil {
			if err := t.fresh(); err != nil {
				return err
			}
		}
		return t.ep.handshakeCase(hdr, good, tag, c)
	}
	err := run()
	err = retry3(t.st, err, func() error {
		if e := t.fresh(); e != nil {
			return e
		}
		return run()
	})
	t.st.Case(2)
	if err != nil {
		t.g.report(t.st, err, fmt.Sprintf("socket=%s transport=%s role=%s harness-header=%x (%s); valid would be %x",
			t.k.name, t.tran, t.role, hdr, what, spHeader(t.k.peer)))
		// continue on a clean socket
		_ = t.fresh()
		return false
	}
	return true
}

func (t *hsTask) close() {
	if t.ep != nil {
		t.ep.close()
	}
}

// Scenario: for every socket type (12 cooked + 12 raw, i.e. all 12 protocol numbers twice),
// stream transport and role: the valid header attaches; every other of the 12 protocol
// numbers in an otherwise well-formed header is refused; afterwards a valid one still works.
func runHandshakeProto(st *ekit.Stats, tier string) {
	var tasks []func()
	for _, k := range allKinds() {
		for _, tran := range streamTransports {
			for _, role := range roles {
				k, tran, role := k, tran, role
				tasks = append(tasks, func() {
					t := &hsTask{st: st, k: k, tran: tran, role: role}
					defer t.close()
					if t.do(spHeader(k.peer), true, "valid", "valid") {
						st.Nontrivial(fmt.Sprintf("%s/%s/%s/valid", k.name, tran, role))
						st.Count("valid_header_attached")
					}
					for _, q := range allProtoNumbers() {
						if q == k.peer {
							continue
						}
						if t.do(spHeader(q), false, "wrong-proto", fmt.Sprintf("well-formed, names protocol %#x", q)) {
							st.Nontrivial(fmt.Sprintf("%s/%s/%s/proto%x", k.name, tran, role, q))
							st.Count("wrong_proto_refused_and_closed")
						}
					}
					if t.do(spHeader(k.peer), true, "valid", "valid, after the refused ones") {
						st.Count("valid_header_attached_after_refusals")
					}
					for cut := 1; cut < 8; cut++ {
						if t.do(spHeader(k.peer), true, "valid-split", fmt.Sprintf("valid, written in two parts of %d and %d bytes", cut, 8-cut), cut) {
							st.Nontrivial(fmt.Sprintf("%s/%s/%s/split%d", k.name, tran, role, cut))
							st.Count("valid_header_in_two_writes_attached")
						}
					}
				})
			}
		}
	}
	runParallel(st, 32, tasks)
}

// Scenario: every single byte deviation of the peer's header (8 positions x 255 values) for
// each of the 12 protocol numbers (cooked sockets), both roles, on tcp, tls+tcp and ipc; the
// full grid in both tiers (it takes about 20 s; thorough repeats it on the 12 raw sockets).  A valid handshake is interleaved before,
// after every 64 refused ones and at the end of every byte position.
func runHandshakeGrid(st *ekit.Stats, tier string) {
	var tasks []func()
	kinds := cooked
	if tier != "quick" {
		kinds = allKinds() // the raw variants share the protocol numbers; thorough repeats the grid on them
	}
	for _, k := range kinds {
		for _, tran := range streamTransports {
			for _, role := range roles {
				for pos := 0; pos < 8; pos++ {
					k, tran, role, pos := k, tran, role, pos
					tasks = append(tasks, func() {
						t := &hsTask{st: st, k: k, tran: tran, role: role}
						defer t.close()
						valid := spHeader(k.peer)
						var vals []int
						for v := 0; v < 256; v++ {
							if byte(v) != valid[pos] {
								vals = append(vals, v)
							}
						}
						tag := fmt.Sprintf("byte%d", pos)
						recheck := func() {
							if t.do(valid, true, "valid", "valid, interleaved recovery check at "+tag) {
								st.Count("recovery_valid_attached")
							}
						}
						recheck()
						for i, v := range vals {
							if st.OutOfTime() {
								st.Cap("wall clock budget used up inside the grid")
								return
							}
							if t.g.stop() {
								return
							}
							h := append([]byte{}, valid...)
							h[pos] = byte(v)
							if t.do(h, false, tag, fmt.Sprintf("byte %d changed %02x -> %02x", pos, valid[pos], v)) {
								st.Nontrivial(fmt.Sprintf("%s/%s/%s/%d/%02x", k.name, tran, role, pos, v))
								st.Count("deviation_refused_and_closed")
							}
							if i%64 == 63 {
								recheck()
							}
						}
						recheck()
					})
				}
			}
		}
	}
	runParallel(st, 48, tasks)
}
