// Package c15 is the engine E harness of property C15: bytes on the wire follow the SP
// stream mapping (TCP, TLS, IPC) and the SP WebSocket mapping.
//
// This file is the INDEPENDENT codec: it is written from the SP mapping description and
// RFC 6455 only and uses nothing of mangos' transport code (and not gorilla/websocket).
package c15

import (
	"bufio"
	"bytes"
	"crypto/sha1"
	"encoding/base64"
	"errors"
	"fmt"
	"io"
	"net"
	"net/http"
	"strings"
	"time"
)

// ---------------------------------------------------------------------------------
// SP stream mapping
// ---------------------------------------------------------------------------------

// spHeader is the 8 byte connection header: 00 'S' 'P' 00 <proto be16> 00 00.
func spHeader(proto uint16) []byte {
	return []byte{0x00, 0x53, 0x50, 0x00, byte(proto >> 8), byte(proto & 0xff), 0x00, 0x00}
}

// spPrefix is what precedes the payload of a message of n bytes: the 64 bit big endian
// length, on IPC preceded by one byte 0x01.
func spPrefix(ipc bool, n int) []byte {
	var p []byte
	if ipc {
		p = append(p, 0x01)
	}
	v := uint64(n)
	for shift := 56; shift >= 0; shift -= 8 {
		p = append(p, byte(v>>uint(shift)))
	}
	return p
}

// spFrame is the complete wire image of one message.
func spFrame(ipc bool, payload []byte) []byte {
	return append(spPrefix(ipc, len(payload)), payload...)
}

// spReadFrame parses one message from r.  limit bounds the accepted length (so that a
// garbage length is reported instead of being allocated).
func spReadFrame(r io.Reader, ipc bool, limit int) (prefix []byte, payload []byte, err error) {
	n := 8
	if ipc {
		n = 9
	}
	prefix = make([]byte, n)
	if k, e := io.ReadFull(r, prefix); e != nil {
		return prefix[:k], nil, fmt.Errorf("reading message prefix: %v", e)
	}
	p := prefix
	if ipc {
		if p[0] != 0x01 {
			return prefix, nil, fmt.Errorf("IPC message does not start with 0x01")
		}
		p = p[1:]
	}
	var v uint64
	for _, b := range p {
		v = v<<8 | uint64(b)
	}
	if v > uint64(limit) {
		return prefix, nil, fmt.Errorf("length %d exceeds anything that was sent", v)
	}
	payload = make([]byte, int(v))
	if k, e := io.ReadFull(r, payload); e != nil {
		return prefix, payload[:k], fmt.Errorf("reading %d payload bytes: got %d: %v", v, k, e)
	}
	return prefix, payload, nil
}

// ---------------------------------------------------------------------------------
// RFC 6455
// ---------------------------------------------------------------------------------

const wsGUID = "258EAFA5-E914-47DA-95CA-C5AB0DC85B11"

func wsAcceptKey(key string) string {
	h := sha1.Sum([]byte(key + wsGUID))
	return base64.StdEncoding.EncodeToString(h[:])
}

// wsConn is an established WebSocket connection (either end).
type wsConn struct {
	c      net.Conn
	br     *bufio.Reader
	client bool // we are the client: we mask what we send, and expect unmasked frames
	nmask  uint32
}

type wsFrame struct {
	fin     bool
	rsv     byte
	opcode  byte
	masked  bool
	payload []byte
}

func headerHasToken(h http.Header, name, token string) bool {
	for _, v := range h[http.CanonicalHeaderKey(name)] {
		for _, t := range strings.Split(v, ",") {
			if strings.EqualFold(strings.TrimSpace(t), token) {
				return true
			}
		}
	}
	return false
}

func headerTokens(h http.Header, name string) []string {
	var out []string
	for _, v := range h[http.CanonicalHeaderKey(name)] {
		for _, t := range strings.Split(v, ",") {
			if t = strings.TrimSpace(t); t != "" {
				out = append(out, t)
			}
		}
	}
	return out
}

// wsServerHandshake reads the client's opening handshake from c.  It returns the list of
// subprotocols the client offered.  choose selects the subprotocol to answer with ("" to
// refuse with 400).
func wsServerHandshake(c net.Conn, choose func(offered []string) string) (*wsConn, []string, error) {
	br := bufio.NewReader(c)
	req, err := http.ReadRequest(br)
	if err != nil {
		return nil, nil, fmt.Errorf("reading the HTTP upgrade request: %v", err)
	}
	if req.Method != "GET" {
		return nil, nil, fmt.Errorf("upgrade request method %q", req.Method)
	}
	if !headerHasToken(req.Header, "Upgrade", "websocket") || !headerHasToken(req.Header, "Connection", "upgrade") {
		return nil, nil, fmt.Errorf("request is not a WebSocket upgrade: %v", req.Header)
	}
	if v := req.Header.Get("Sec-WebSocket-Version"); v != "13" {
		return nil, nil, fmt.Errorf("Sec-WebSocket-Version %q", v)
	}
	key := req.Header.Get("Sec-WebSocket-Key")
	if raw, e := base64.StdEncoding.DecodeString(key); e != nil || len(raw) != 16 {
		return nil, nil, fmt.Errorf("Sec-WebSocket-Key %q is not 16 base64 encoded bytes", key)
	}
	offered := headerTokens(req.Header, "Sec-WebSocket-Protocol")
	sub := choose(offered)
	if sub == "" {
		_, _ = io.WriteString(c, "HTTP/1.1 400 Bad Request\r\nContent-Length: 0\r\nConnection: close\r\n\r\n")
		return nil, offered, errors.New("refused")
	}
	resp := "HTTP/1.1 101 Switching Protocols\r\n" +
		"Upgrade: websocket\r\n" +
		"Connection: Upgrade\r\n" +
		"Sec-WebSocket-Accept: " + wsAcceptKey(key) + "\r\n" +
		"Sec-WebSocket-Protocol: " + sub + "\r\n\r\n"
	if _, err = io.WriteString(c, resp); err != nil {
		return nil, offered, err
	}
	return &wsConn{c: c, br: br}, offered, nil
}

// wsClientHandshake performs the client's opening handshake on c.  sub is the offered
// subprotocol ("" = no Sec-WebSocket-Protocol header at all).  status is the HTTP status
// of the answer (0 if none could be read).
func wsClientHandshake(c net.Conn, host, path, sub string, seq uint32) (w *wsConn, status int, err error) {
	var kb [16]byte
	x := seq*2654435761 + 0x9e3779b9
	for i := range kb {
		x = x*1664525 + 1013904223
		kb[i] = byte(x >> 24)
	}
	key := base64.StdEncoding.EncodeToString(kb[:])
	req := "GET " + path + " HTTP/1.1\r\n" +
		"Host: " + host + "\r\n" +
		"Upgrade: websocket\r\n" +
		"Connection: Upgrade\r\n" +
		"Sec-WebSocket-Key: " + key + "\r\n" +
		"Sec-WebSocket-Version: 13\r\n"
	if sub != "" {
		req += "Sec-WebSocket-Protocol: " + sub + "\r\n"
	}
	req += "\r\n"
	if _, err = io.WriteString(c, req); err != nil {
		return nil, 0, err
	}
	br := bufio.NewReader(c)
	resp, err := http.ReadResponse(br, nil)
	if err != nil {
		return nil, 0, err
	}
	if resp.StatusCode != 101 {
		return nil, resp.StatusCode, fmt.Errorf("HTTP status %d", resp.StatusCode)
	}
	if !headerHasToken(resp.Header, "Upgrade", "websocket") || !headerHasToken(resp.Header, "Connection", "upgrade") {
		return nil, 101, fmt.Errorf("101 answer without Upgrade: websocket / Connection: Upgrade: %v", resp.Header)
	}
	if a := resp.Header.Get("Sec-WebSocket-Accept"); a != wsAcceptKey(key) {
		return nil, 101, fmt.Errorf("Sec-WebSocket-Accept %q, want %q", a, wsAcceptKey(key))
	}
	if got := headerTokens(resp.Header, "Sec-WebSocket-Protocol"); len(got) > 1 || (len(got) == 1 && got[0] != sub) {
		// RFC 6455 4.1: a subprotocol that was not offered fails the connection
		return nil, 101, fmt.Errorf("server selected subprotocol %q which was not offered (%q)", got, sub)
	}
	return &wsConn{c: c, br: br, client: true, nmask: seq}, 101, nil
}

// writeFrame sends one frame with FIN=1.
func (w *wsConn) writeFrame(opcode byte, payload []byte) error {
	var b bytes.Buffer
	b.WriteByte(0x80 | opcode)
	mbit := byte(0)
	if w.client {
		mbit = 0x80
	}
	n := len(payload)
	switch {
	case n < 126:
		b.WriteByte(mbit | byte(n))
	case n < 65536:
		b.WriteByte(mbit | 126)
		b.WriteByte(byte(n >> 8))
		b.WriteByte(byte(n))
	default:
		b.WriteByte(mbit | 127)
		v := uint64(n)
		for shift := 56; shift >= 0; shift -= 8 {
			b.WriteByte(byte(v >> uint(shift)))
		}
	}
	if w.client {
		w.nmask = w.nmask*1664525 + 1013904223
		k := [4]byte{byte(w.nmask >> 24), byte(w.nmask >> 16), byte(w.nmask >> 8), byte(w.nmask)}
		b.Write(k[:])
		for i, c := range payload {
			b.WriteByte(c ^ k[i&3])
		}
	} else {
		b.Write(payload)
	}
	_, err := w.c.Write(b.Bytes())
	return err
}

// readFrame parses one frame.  limit bounds the accepted payload length.
func (w *wsConn) readFrame(limit int) (*wsFrame, error) {
	var h [2]byte
	if _, err := io.ReadFull(w.br, h[:]); err != nil {
		return nil, fmt.Errorf("reading frame header: %v", err)
	}
	f := &wsFrame{fin: h[0]&0x80 != 0, rsv: (h[0] >> 4) & 7, opcode: h[0] & 0x0f, masked: h[1]&0x80 != 0}
	n := uint64(h[1] & 0x7f)
	ext := 0
	if n == 126 {
		ext = 2
	} else if n == 127 {
		ext = 8
	}
	if ext > 0 {
		var e [8]byte
		if _, err := io.ReadFull(w.br, e[:ext]); err != nil {
			return nil, fmt.Errorf("reading extended length: %v", err)
		}
		n = 0
		for _, b := range e[:ext] {
			n = n<<8 | uint64(b)
		}
	}
	if n > uint64(limit) {
		return f, fmt.Errorf("frame length %d exceeds anything that was sent", n)
	}
	var k [4]byte
	if f.masked {
		if _, err := io.ReadFull(w.br, k[:]); err != nil {
			return nil, fmt.Errorf("reading masking key: %v", err)
		}
	}
	f.payload = make([]byte, int(n))
	if got, err := io.ReadFull(w.br, f.payload); err != nil {
		return f, fmt.Errorf("reading %d payload bytes: got %d: %v", n, got, err)
	}
	if f.masked {
		for i := range f.payload {
			f.payload[i] ^= k[i&3]
		}
	}
	// RFC 6455 5.1: a server must not mask, a client must mask
	if w.client && f.masked {
		return f, errors.New("server sent a masked frame")
	}
	if !w.client && !f.masked {
		return f, errors.New("client sent an unmasked frame")
	}
	return f, nil
}

// ---------------------------------------------------------------------------------
// small shared helpers
// ---------------------------------------------------------------------------------

const watchdog = 10 * time.Second

func isTimeout(err error) bool {
	var ne net.Error
	return errors.As(err, &ne) && ne.Timeout()
}

// fill returns n deterministic, position dependent bytes (an LCG stream keyed by salt), so
// that any shift, truncation or reordering changes the content.
func fill(n int, salt uint32) []byte {
	b := make([]byte, n)
	x := salt*2654435761 + 0x7f4a7c15
	for i := range b {
		x = x*1664525 + 1013904223
		b[i] = byte(x>>24) ^ byte(i)
	}
	return b
}

func hexHead(b []byte) string {
	if len(b) <= 24 {
		return fmt.Sprintf("%x", b)
	}
	return fmt.Sprintf("%x..(%d bytes)", b[:24], len(b))
}

// firstDiff describes where two byte strings start to differ.
func firstDiff(got, want []byte) string {
	n := len(got)
	if len(want) < n {
		n = len(want)
	}
	for i := 0; i < n; i++ {
		if got[i] != want[i] {
			return fmt.Sprintf("len got=%d want=%d, first difference at offset %d (got %02x want %02x)", len(got), len(want), i, got[i], want[i])
		}
	}
	return fmt.Sprintf("len got=%d want=%d, common prefix equal", len(got), len(want))
}
