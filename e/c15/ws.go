package c15

import (
	"bytes"
	"fmt"
	"net"
	"sync/atomic"
	"time"

	"go.nanomsg.org/mangos/v3"
	"go.nanomsg.org/mangos/v3/ve/ekit"
)

func init() {
	ekit.Register("C15", ekit.Scenario{Name: "ws_subprotocol_mangos_dials", Run: runWSDialSub})
	ekit.Register("C15", ekit.Scenario{Name: "ws_subprotocol_mangos_listens", Run: runWSListenSub})
	ekit.Register("C15", ekit.Scenario{Name: "ws_frames_mangos_to_harness", Run: runWSOut})
	ekit.Register("C15", ekit.Scenario{Name: "ws_frames_harness_to_mangos", Run: runWSIn})
}

var wsTransports = []string{"ws", "wss"}

const spSuffix = ".sp.nanomsg.org"

var wsSeq uint32

func nextSeq() uint32 { return atomic.AddUint32(&wsSeq, 1) }

// wsDialCase: mangos dials the harness' RFC 6455 server.  The offered subprotocol list must
// be exactly "<peer-name>.sp.nanomsg.org"; the server answers with it and the pipe attaches.
// The established connection is returned when keep is set.
func (ep *endpoint) wsDialCase(keep bool) (*wsConn, func(), error) {
	before := ep.ev.nAttached()
	c, d, res, err := ep.mangosDial()
	if err != nil {
		return nil, nil, err
	}
	done := func() { _ = d.Close(); _ = c.Close() }
	_ = c.SetDeadline(time.Now().Add(watchdog))
	want := ep.k.peerName + spSuffix
	var offered []string
	w, offered, err := wsServerHandshake(c, func(o []string) string {
		if len(o) == 1 && o[0] == want {
			return want
		}
		return ""
	})
	if err != nil {
		done()
		if offered != nil || err.Error() == "refused" {
			return nil, nil, failf("C15/ws/dialer-subprotocol/"+ep.tran, "fail",
				"mangos %s socket offered Sec-WebSocket-Protocol %q, the SP mapping demands exactly %q", ep.k.name, offered, want)
		}
		return nil, nil, failf("C15/ws/dialer-upgrade-request/"+ep.tran, "fail", "the opening handshake of the mangos dialer is not an RFC 6455 upgrade request: %v", err)
	}
	if !ep.ev.waitAttached(before + 1) {
		done()
		return nil, nil, failf("C15/ws/dialer-no-pipe/"+ep.tran, "hang", "no pipe attached within %v after the server answered 101 with %q", watchdog, want)
	}
	select {
	case e := <-res:
		if e != nil {
			done()
			return nil, nil, failf("C15/ws/dialer-dial-error/"+ep.tran, "fail", "Dial returned %v after a correct 101 answer", e)
		}
	case <-time.After(watchdog):
		done()
		return nil, nil, failf("C15/ws/dialer-dial-hang/"+ep.tran, "hang", "Dial did not return within %v", watchdog)
	}
	_ = c.SetDeadline(time.Time{})
	if keep {
		return w, done, nil
	}
	n := ep.ev.nAttached()
	done()
	ep.ev.waitDetached(n)
	return nil, nil, nil
}

// wsListenCase: the harness' RFC 6455 client connects to the mangos listener offering sub.
// good: 101 and a pipe attaches.  !good: no 101 (or the connection is closed at once) and
// no pipe attaches.
func (ep *endpoint) wsListenCase(sub string, good, keep bool) (*wsConn, func(), error) {
	before := ep.ev.nAttached()
	c, err := ep.rawDial()
	if err != nil {
		return nil, nil, failf("C15/listener-not-accepting/"+ep.tran, "fail", "the mangos %s listener at %s does not accept a new connection: %v", ep.k.name, ep.rawAddr, err)
	}
	done := func() { _ = c.Close() }
	_ = c.SetDeadline(time.Now().Add(watchdog))
	w, status, err := wsClientHandshake(c, ep.rawAddr, "/c15", sub, nextSeq())
	if good {
		if err != nil {
			done()
			kind := "fail"
			if isTimeout(err) {
				kind = "hang"
			}
			return nil, nil, failf("C15/ws/listener-refused-right-subprotocol/"+ep.tran, kind,
				"mangos %s listener did not complete the opening handshake of a client offering %q: %v", ep.k.name, sub, err)
		}
		if !ep.ev.waitAttached(before + 1) {
			done()
			return nil, nil, failf("C15/ws/listener-no-pipe/"+ep.tran, "hang", "no pipe attached within %v after 101 for %q", watchdog, sub)
		}
		_ = c.SetDeadline(time.Time{})
		if keep {
			return w, done, nil
		}
		n := ep.ev.nAttached()
		done()
		ep.ev.waitDetached(n)
		return nil, nil, nil
	}
	// must be refused
	if err != nil && status != 101 {
		attached := ep.ev.nAttached() > before
		done()
		if isTimeout(err) {
			return nil, nil, failf("C15/ws/listener-wrong-subprotocol-hang/"+ep.tran, "hang", "no answer within %v to a client offering %q", watchdog, sub)
		}
		if attached {
			return nil, nil, failf("C15/ws/listener-wrong-subprotocol-accepted/"+ep.tran, "fail", "a pipe attached for a client offering %q", sub)
		}
		return nil, nil, nil
	}
	// 101 (possibly with a defect our client noticed): acceptable only if mangos closes at
	// once without attaching a pipe
	start := time.Now()
	closed := false
	buf := make([]byte, 64)
	poll := time.Millisecond
	for time.Since(start) < watchdog {
		_ = c.SetReadDeadline(time.Now().Add(poll))
		if poll < 50*time.Millisecond {
			poll *= 2
		}
		var e error
		if w != nil {
			_, e = w.br.Read(buf)
		} else {
			_, e = c.Read(buf)
		}
		if e == nil {
			continue
		}
		if !isTimeout(e) {
			closed = true
			break
		}
		if ep.ev.nAttached() > before {
			break
		}
	}
	attached := ep.ev.nAttached() > before
	n := ep.ev.nAttached()
	done()
	if attached {
		ep.ev.waitDetached(n)
		return nil, nil, failf("C15/ws/listener-wrong-subprotocol-accepted/"+ep.tran, "fail",
			"mangos %s listener (accepts only %q) answered 101 and attached a pipe for a client offering %q", ep.k.name, ep.k.selfName+spSuffix, sub)
	}
	if !closed {
		return nil, nil, failf("C15/ws/listener-wrong-subprotocol-101-open/"+ep.tran, "hang", "101 for a client offering %q and the connection stays open", sub)
	}
	return nil, nil, nil
}

type wsTask struct {
	st   *ekit.Stats
	k    kind
	tran string
	role string
	ep   *endpoint
	g    guard
}

func (t *wsTask) fresh() error {
	if t.ep != nil {
		t.ep.close()
		t.ep = nil
	}
	ep, err := newEndpoint(t.k, t.tran, t.role)
	if err != nil {
		return err
	}
	t.ep = ep
	return nil
}

func (t *wsTask) do(input string, f func() error) bool {
	if t.g.stop() {
		return false
	}
	run := func() error {
		if t.ep == nil {
			if err := t.fresh(); err != nil {
				return err
			}
		}
		return f()
	}
	err := run()
	err = retry3(t.st, err, func() error {
		if e := t.fresh(); e != nil {
			return e
		}
		return run()
	})
	t.st.Case(2)
	if err != nil {
		t.g.report(t.st, err, fmt.Sprintf("socket=%s transport=%s role=%s %s", t.k.name, t.tran, t.role, input))
		_ = t.fresh()
		return false
	}
	return true
}

func runWSDialSub(st *ekit.Stats, tier string) {
	var tasks []func()
	for _, k := range allKinds() {
		for _, tran := range wsTransports {
			k, tran := k, tran
			tasks = append(tasks, func() {
				t := &wsTask{st: st, k: k, tran: tran, role: roleDial}
				defer func() {
					if t.ep != nil {
						t.ep.close()
					}
				}()
				// twice: a second dialer of the same socket offers the same
				for i := 0; i < 2; i++ {
					if t.do("harness server expects the offer "+k.peerName+spSuffix, func() error { _, _, e := t.ep.wsDialCase(false); return e }) {
						st.Nontrivial(fmt.Sprintf("%s/%s/%d", k.name, tran, i))
						st.Count("dialer_offered_exactly_peer_subprotocol")
					}
				}
			})
		}
	}
	runParallel(st, 24, tasks)
}

// wrongOffers is the complete list of refused offers for a listener whose own name is self.
func wrongOffers(self string) []string {
	seen := map[string]bool{self + spSuffix: true}
	var out []string
	add := func(s string) {
		if !seen[s] {
			seen[s] = true
			out = append(out, s)
		}
	}
	for _, k := range cooked {
		add(k.selfName + spSuffix)
	}
	add("")                            // no Sec-WebSocket-Protocol header at all
	add(self)                          // bare name
	add(self + ".sp.nanomsg.com")      // other domain
	add("x" + self + spSuffix)         // prefixed
	add(self + spSuffix + ".example")  // suffixed
	add(self + "x" + spSuffix)         // longer name
	add(self[:len(self)-1] + spSuffix) // truncated name
	add(spSuffix[1:])                  // no name
	add("sp.nanomsg.org." + self)      // reversed
	add(self + ".sp.nanomsg.or")       // truncated suffix
	add(self + "-sp.nanomsg.org")      // other separator
	return out
}

func runWSListenSub(st *ekit.Stats, tier string) {
	var tasks []func()
	for _, k := range allKinds() {
		for _, tran := range wsTransports {
			k, tran := k, tran
			tasks = append(tasks, func() {
				t := &wsTask{st: st, k: k, tran: tran, role: roleListen}
				defer func() {
					if t.ep != nil {
						t.ep.close()
					}
				}()
				right := k.selfName + spSuffix
				good := func(when string) {
					if t.do("harness client offers "+right+" ("+when+")", func() error { _, _, e := t.ep.wsListenCase(right, true, false); return e }) {
						st.Nontrivial(fmt.Sprintf("%s/%s/good/%s", k.name, tran, when))
						st.Count("listener_accepted_right_subprotocol")
					}
				}
				good("first")
				for _, off := range wrongOffers(k.selfName) {
					off := off
					if t.do(fmt.Sprintf("harness client offers %q, the listener's name is %q", off, k.selfName), func() error { _, _, e := t.ep.wsListenCase(off, false, false); return e }) {
						st.Nontrivial(fmt.Sprintf("%s/%s/bad/%s", k.name, tran, off))
						st.Count("listener_refused_other_subprotocol")
					}
				}
				good("after the refusals")
			})
		}
	}
	runParallel(st, 24, tasks)
}

// ---------------------------------------------------------------------------------
// frames
// ---------------------------------------------------------------------------------

type wsSession struct {
	ep     *endpoint
	w      *wsConn
	done   func()
	pipeID uint32
}

func openWSSession(k kind, tran, role string) (*wsSession, error) {
	ep, err := newEndpoint(k, tran, role)
	if err != nil {
		return nil, err
	}
	var w *wsConn
	var done func()
	if role == roleDial {
		w, done, err = ep.wsDialCase(true)
	} else {
		w, done, err = ep.wsListenCase(k.selfName+spSuffix, true, true)
	}
	if err != nil {
		ep.close()
		return nil, err
	}
	return &wsSession{ep: ep, w: w, done: done, pipeID: ep.ev.lastID()}, nil
}

func (s *wsSession) close() {
	s.done()
	s.ep.close()
}

func (s *wsSession) conn() net.Conn { return s.w.c }

func (s *wsSession) runOut(sp outSpec, oc outCase, salt uint32) error {
	tran := s.ep.tran
	// outSpec.build only needs the pipe id
	msgHdr, wireHdr, known := sp.build(&session{pipeID: s.pipeID}, oc.hdrLen, salt)
	body := fill(oc.size, salt)
	m := mangos.NewMessage(len(body))
	m.Header = append(m.Header, msgHdr...)
	m.Body = append(m.Body, body...)
	if err := s.ep.sock.SendMsg(m); err != nil {
		return failf("C15/ws-out/send-error/"+tran, "fail", "SendMsg: %v", err)
	}
	total := oc.hdrLen + oc.size
	_ = s.conn().SetReadDeadline(time.Now().Add(watchdog))
	f, err := s.w.readFrame(total + 1024)
	if err != nil {
		kind := "fail"
		if isTimeout(err) {
			kind = "hang"
		}
		return failf("C15/ws-out/unparsable/"+tran, kind, "message with %d header + %d body bytes: %v", oc.hdrLen, oc.size, err)
	}
	if !f.fin && f.opcode == 2 && f.rsv == 0 {
		// a fragmented message: read the continuation frames so that the report says
		// exactly what was on the wire (and the connection stays in sync)
		sizes := []int{len(f.payload)}
		all := append([]byte{}, f.payload...)
		shape := "then continuation frames"
		for len(sizes) < 4096 {
			g, err := s.w.readFrame(total + 1024)
			if err != nil {
				shape = fmt.Sprintf("then %v", err)
				break
			}
			sizes = append(sizes, len(g.payload))
			all = append(all, g.payload...)
			if g.opcode != 0 {
				shape = fmt.Sprintf("then a frame with opcode %d", g.opcode)
				break
			}
			if g.fin {
				break
			}
		}
		want := append(append([]byte{}, wireHdr...), body...)
		if !known {
			want, all = body, all[min(oc.hdrLen, len(all)):]
		}
		return failf("C15/ws-out/message-fragmented/"+tran+"/"+s.ep.role, "fail",
			"message with %d header + %d body bytes was not sent as one binary frame: first frame FIN=0 opcode=2, %s; %d frames with payload sizes %v (reassembled payload equals header||body: %v)",
			oc.hdrLen, oc.size, shape, len(sizes), sizes, bytes.Equal(all, want))
	}
	if !f.fin || f.opcode != 2 || f.rsv != 0 {
		return failf("C15/ws-out/not-one-binary-frame/"+tran, "fail",
			"message with %d header + %d body bytes arrived as frame FIN=%v RSV=%d opcode=%d with %d payload bytes; the SP mapping demands one binary frame (FIN=1 opcode=2)",
			oc.hdrLen, oc.size, f.fin, f.rsv, f.opcode, len(f.payload))
	}
	if known {
		want := append(append([]byte{}, wireHdr...), body...)
		if !bytes.Equal(f.payload, want) {
			return failf("C15/ws-out/payload/"+tran, "fail", "frame payload is not header||body: %s", firstDiff(f.payload, want))
		}
	} else if len(f.payload) != total || !bytes.Equal(f.payload[oc.hdrLen:], body) {
		return failf("C15/ws-out/payload/"+tran, "fail", "frame payload is not <%d header bytes>||body: %s", oc.hdrLen, firstDiff(f.payload[min(oc.hdrLen, len(f.payload)):], body))
	}
	return nil
}

func (s *wsSession) recvCheck(sp inSpec, payload []byte, what string) error {
	// same oracle as on the stream transports
	return (&session{ep: s.ep}).recvCheck(sp, payload, what)
}

func (s *wsSession) runIn(sp inSpec, hdrLen, size int, salt uint32) error {
	payload := append(sp.hdr(hdrLen, salt), fill(size, salt)...)
	_ = s.conn().SetWriteDeadline(time.Now().Add(watchdog))
	if err := s.w.writeFrame(2, payload); err != nil {
		return failf("C15/framing-in/connection-dropped/write", "fail", "harness write of a binary frame failed: %v", err)
	}
	return s.recvCheck(sp, payload, fmt.Sprintf("binary frame of %d header + %d body bytes", hdrLen, size))
}

// runBurst writes many binary frames back to back (one TCP write per frame, no waiting) and
// expects one message per frame, in order.
func (s *wsSession) runBurst(sp inSpec, sizes []int) error {
	hl := sp.hdrLens[0]
	var payloads [][]byte
	for i, sz := range sizes {
		salt := uint32(0xc0000 + i)
		payloads = append(payloads, append(sp.hdr(hl, salt), fill(sz, salt)...))
	}
	errc := make(chan error, 1)
	go func() {
		_ = s.conn().SetWriteDeadline(time.Now().Add(watchdog))
		for _, p := range payloads {
			if err := s.w.writeFrame(2, p); err != nil {
				errc <- failf("C15/framing-in/connection-dropped/write", "fail", "harness write of a binary frame failed: %v", err)
				return
			}
		}
		errc <- nil
	}()
	for i, p := range payloads {
		if err := s.recvCheck(sp, p, fmt.Sprintf("frame %d of %d frames written back to back (body %d bytes)", i, len(sizes), sizes[i])); err != nil {
			return err
		}
	}
	return <-errc
}

func runWSOut(st *ekit.Stats, tier string) {
	sizes := sizesFor(tier)
	var tasks []func()
	for _, tran := range wsTransports {
		for _, role := range roles {
			for _, sp := range outSpecs {
				tran, role, sp := tran, role, sp
				tasks = append(tasks, func() {
					k := kindByName(sp.kind)
					var g guard
					var s *wsSession
					defer func() {
						if s != nil {
							s.close()
						}
					}()
					ensure := func() error {
						if s != nil {
							return nil
						}
						var err error
						s, err = openWSSession(k, tran, role)
						return err
					}
					reset := func() {
						if s != nil {
							s.close()
							s = nil
						}
					}
					for _, hl := range sp.hdrLens {
						for _, sz := range sizes {
							if st.OutOfTime() {
								st.Cap("wall clock budget used up")
								return
							}
							oc := outCase{hl, sz}
							salt := uint32(hl*1000003 + sz + 31)
							run := func() error {
								if err := ensure(); err != nil {
									return err
								}
								return s.runOut(sp, oc, salt)
							}
							err := run()
							err = retry3(st, err, func() error { reset(); return run() })
							st.Case(2)
							if err != nil {
								g.report(st, err, fmt.Sprintf("transport=%s role=%s sender=%s wire-header-len=%d body-len=%d body=fill(%d,%d)", tran, role, sp.kind, hl, sz, sz, salt))
								reset()
								if g.stop() {
									return
								}
								continue
							}
							st.Nontrivial(fmt.Sprintf("%s/%s/%s/%d/%d", tran, role, sp.kind, hl, sz))
							st.Count("one_binary_frame_payload_equal")
							if hl > 0 {
								st.Count("frame_with_protocol_header")
							}
						}
					}
				})
			}
		}
	}
	runParallel(st, 24, tasks)
}

func runWSIn(st *ekit.Stats, tier string) {
	sizes := sizesFor(tier)
	var tasks []func()
	for _, tran := range wsTransports {
		for _, role := range roles {
			for _, sp := range inSpecs {
				tran, role, sp := tran, role, sp
				tasks = append(tasks, func() {
					k := kindByName(sp.kind)
					var g guard
					var s *wsSession
					defer func() {
						if s != nil {
							s.close()
						}
					}()
					ensure := func() error {
						if s != nil {
							return nil
						}
						var err error
						s, err = openWSSession(k, tran, role)
						return err
					}
					reset := func() {
						if s != nil {
							s.close()
							s = nil
						}
					}
					do := func(input, key string, ops int, f func() error) bool {
						if g.stop() {
							return false
						}
						run := func() error {
							if err := ensure(); err != nil {
								return err
							}
							return f()
						}
						err := run()
						err = retry3(st, err, func() error { reset(); return run() })
						st.Case(ops)
						if err != nil {
							g.report(st, err, fmt.Sprintf("transport=%s role=%s receiver=%s %s", tran, role, sp.kind, input))
							reset()
							return false
						}
						st.Nontrivial(fmt.Sprintf("%s/%s/%s/%s", tran, role, sp.kind, key))
						return true
					}
					for _, hl := range sp.hdrLens {
						for _, sz := range sizes {
							if st.OutOfTime() {
								st.Cap("wall clock budget used up")
								return
							}
							hl, sz := hl, sz
							salt := uint32(hl*1000003 + sz + 53)
							if do(fmt.Sprintf("wire-header-len=%d body-len=%d one binary frame, content fill(.,%d)", hl, sz, salt),
								fmt.Sprintf("w/%d/%d", hl, sz), 2, func() error { return s.runIn(sp, hl, sz, salt) }) {
								st.Count("frame_delivered_as_one_message")
							}
						}
					}
					var burst []int
					for _, sz := range baseSizes {
						if sz <= 1025 {
							burst = append(burst, sz)
						}
					}
					if do(fmt.Sprintf("binary frames with body sizes %v written back to back", burst), "burst", 2*len(burst), func() error { return s.runBurst(sp, burst) }) {
						st.Count("burst_delivered_one_message_per_frame")
					}
				})
			}
		}
	}
	runParallel(st, 24, tasks)
}
